from vf.engines import sched; sched.install()      # noqa: E702  (must precede the import of coba; mp resume configurations run through this engine)
"""C02 - interrupted experiments resume without losing or repeating work (CRASH engine: fault enumeration).

History: a small experiment (recording wrappers around real coba environments / learners / evaluators) is run
in-process by the REAL `Experiment.run` with a result file (plain and .gz); the bytes L it leaves are the write
history.  Crash model: a killed run leaves a byte-prefix of L.  For EVERY prefix length 0..|L| the truncated file
is materialised, read by `Result.from_file`, and then a FRESH identical experiment is run on it.  Compared with
the uninterrupted run:

  (a) the Result returned by the resumed run (four tables, timing columns aside, and the experiment record),
  (b) no triple whose interaction record is complete in the prefix is evaluated again (the evaluator wrapper records calls),
  (c) the final file decodes and holds every E/L/V/I id at most once (raw scan of its lines),
  (d) nothing raises and `Result.from_file` of the truncated file shows every record that is complete in it.

Alternative write histories: every order of the triple list (other ids, other record order) and logs whose records
are re-ordered the way a multi-process run may leave them.  Thorough adds second-level crashes: every prefix of
every resumed file of the smallest shape that is not itself a prefix of L.
"""
import os, json, zlib, gzip, types, itertools, traceback, base64, hashlib

from vf.core import Check, HarnessError, REPO, tmpdir

gzip.time = types.SimpleNamespace(time=lambda: 0.0)      # gzip member headers carry an mtime: pin it so the .gz history is one byte string

from coba.context import CobaContext, NullLogger, MemoryCacher      # noqa: E402
from coba.pipes import ListSink, DiskSink                            # noqa: E402
from coba.experiments import Experiment                              # noqa: E402
from coba.results import Result                                      # noqa: E402

from vf.lib import c02_parts as parts                                # noqa: E402
from vf.lib import cobaenv                                           # noqa: E402
cobaenv.register()          # per-pid coba globals for the multi-process resume configurations (SCHED engine, default schedule)

import coba.evaluators.sequential as _seq                            # noqa: E402


class _Clock:
    """Virtual clock for SequentialCB(record=['time']): the timing values go into the log bytes, so they must not vary."""
    def __init__(self): self.t = 0.0
    def time(self):
        self.t += 1.0
        return self.t


_CLOCK = _Clock()
_seq.time = types.SimpleNamespace(time=_CLOCK.time)

TIMING = ('predict_time', 'learn_time')
TABLES = (('environments', ('environment_id',)), ('learners', ('learner_id',)), ('evaluators', ('evaluator_id',)),
          ('interactions', ('environment_id', 'learner_id', 'evaluator_id', 'index')))
REC_TABLE = {'E': 'environments', 'L': 'learners', 'V': 'evaluators'}

_SCRATCH = tmpdir()          # created in the parent before the fork; removed by the parent's atexit
_COBA_DIR = os.path.join(REPO, 'coba') + os.sep


# ------------------------------------------------------------------ plain helpers (no coba)

def is_none(x): return x is None or type(x).__name__ == 'MissingType'


def same(a, b):
    if is_none(a) or is_none(b): return is_none(a) and is_none(b)
    if isinstance(a, float) and isinstance(b, float): return (a != a and b != b) or a == b
    if isinstance(a, (list, tuple)) and isinstance(b, (list, tuple)):
        return type(a) is type(b) and len(a) == len(b) and all(same(x, y) for x, y in zip(a, b))
    if isinstance(a, dict) and isinstance(b, dict):
        return a.keys() == b.keys() and all(same(a[k], b[k]) for k in a)
    return type(a) is type(b) and a == b


def snapshot(result):
    """{table: {id tuple: [row dict, ...]}} without timing columns + the experiment record."""
    out = {}
    for name, idcols in TABLES:
        t = getattr(result, name)
        cols = tuple(t.columns)
        rows = [dict(zip(cols, r)) for r in zip(*[list(t[c]) for c in cols])] if cols else []
        byid = {}
        for r in rows:
            byid.setdefault(tuple(r.get(c) for c in idcols), []).append({k: v for k, v in r.items() if k not in TIMING})
        out[name] = byid
    out['experiment'] = dict(result.experiment)
    return out


def row_same(a, b):
    """Rows as dicts; a column that is absent equals a column that is None."""
    return all(same(a.get(k), b.get(k)) for k in set(a) | set(b))


def table_diff(ref, got, order=True):
    """None, or (mismatch kind, text)."""
    missing = sorted(set(ref) - set(got)); extra = sorted(set(got) - set(ref))
    if missing: return 'rows missing', f'no row with ids {missing[:3]} ({len(missing)} missing)'
    if extra: return 'rows that the uninterrupted run does not have', f'extra ids {extra[:3]}'
    for k in sorted(ref):
        if len(got[k]) != len(ref[k]): return 'row repeated', f'ids {k}: {len(got[k])} rows instead of {len(ref[k])}'
        for r, g in zip(ref[k], got[k]):
            if not row_same(r, g): return 'values differ', f'ids {k}: {g} instead of {r}'
    # the snapshots keep the table's row order (dict insertion order): equal Results list their rows in the same order
    if order and list(ref) != list(got): return 'rows in another order', f'ids in table order {list(got)[:6]} instead of {list(ref)[:6]}'
    return None


def where_raised(e):
    """Innermost coba function on the traceback of `e`."""
    name = '?'
    for fs in traceback.extract_tb(e.__traceback__):
        if os.path.realpath(fs.filename).startswith(_COBA_DIR): name = fs.name
    return name


def gz_members(data):
    """(text of the complete leading gzip members, number of bytes they occupy)."""
    text, used, rest = b'', 0, data
    while rest:
        d = zlib.decompressobj(wbits=31)
        try:
            out = d.decompress(rest)
        except zlib.error:
            break
        if not d.eof: break
        text += out
        rest = d.unused_data
        used = len(data) - len(rest)
    return text, used


def gz_torn_text(rest):
    """What can still be decompressed out of the bytes behind the last complete gzip member (fed in small blocks so that the
    output before a corrupt spot is kept)."""
    d, out = zlib.decompressobj(wbits=31), b''
    for i in range(0, len(rest), 4096):
        try:
            out += d.decompress(rest[i:i + 4096])
        except zlib.error:
            break
        if d.eof: break
    return out


def _parse(s):
    try:
        return json.loads(s)
    except ValueError:
        return None


def analyse(data, gz):
    """The harness' own reading of what a (possibly torn) log holds, independent of how the writer framed the file:
    content = the longest decodable text of the file (plain: the bytes; gz: the complete gzip members plus whatever still
    decompresses out of the torn rest).
    -> records: parsed json (None when undecodable) of every line of the content that has its line end and counts as RECORDED;
       exempt: the last such line when it lies in the torn rest of a gz file (it is the last, possibly partly written, record: it may
               be kept or redone); tail_record: the unterminated rest of the content parsed, when it is the whole JSON text of a record
               (may be kept or redone as well), else None; tail: the file ends in something partial (unterminated text / torn gz bytes)."""
    if gz:
        whole, used = gz_members(data)
        raw_tail = len(data) > used
        torn = gz_torn_text(data[used:]) if raw_tail else b''
    else:
        whole, torn, raw_tail = data, b'', False
    segs = (whole + torn).split(b'\n')
    recs = [_parse(x) for x in segs[:-1] if x.strip()]
    tail = segs[-1].strip()
    exempt = []
    if not tail and raw_tail and torn.strip() and recs:
        exempt = [recs.pop()]          # the content ends with a line end, but that line ends inside the torn rest
    return {'records': recs, 'exempt': [r for r in exempt if r is not None], 'tail': bool(tail) or raw_tail,
            'tail_record': _parse(tail) if tail else None}


def position(data, gz, complete=False):
    """Minimal discriminating feature of a crash point (goes into violation keys)."""
    kind = 'gz' if gz else 'plain'
    if complete: return f'{kind} file, complete log'
    if not data: return f'{kind} file, empty'
    a = analyse(data, gz)
    n = len(a['records'])
    garbage = ', undecodable line earlier in the file' if any(r is None for r in a['records']) else ''
    if not a['tail']:
        where = 'after the version record' if n == 1 else 'between records'
        return f'{kind} file, cut {where}{garbage}'
    if gz: return f'{kind} file, cut inside a gzip member{garbage}'
    if a['tail_record'] is not None: return f'{kind} file, cut before the newline of a record{garbage}'
    return f'{kind} file, cut inside a record{garbage}'


def rec_ids(recs):
    """{'I': [triple ids], 'E': [...], 'L': [...], 'V': [...]} of the decodable records."""
    out = {'I': [], 'E': [], 'L': [], 'V': []}
    for r in recs:
        if not isinstance(r, list) or not r or r[0] not in out: continue
        if r[0] == 'I':
            ids = list(r[1]); out['I'].append(tuple(ids if len(ids) == 3 else ids + [0]))
        else:
            out[r[0]].append(r[1])
    return out


# ------------------------------------------------------------------ the check

ORD_S2_QUICK = [[0, 1, 2, 3], [3, 2, 1, 0], [1, 2, 0, 3], [2, 0, 3, 1], [1, 0, 3, 2], [3, 0, 1, 2]]
ORD_S4_QUICK = [[0, 1, 2, 3], [3, 1, 2, 0], [2, 3, 0, 1], [1, 0, 3, 2]]


def reorder(lines, how):
    """Record orders a multi-process run may leave (every record is the output of its own chunk): preamble first, then the
    parameter / interaction records as written ('asis'), reversed ('rev') or rotated by half ('rot')."""
    head, body = lines[:2], lines[2:]
    if how == 'rev': body = body[::-1]
    elif how == 'rot': body = body[len(body) // 2:] + body[:len(body) // 2]
    elif how != 'asis': raise ValueError(how)
    return head + body


# result-file names (relative to the per-worker scratch directory).  coba decides by `".gz" in filename` whether a file is gzip
# framed, at several sites (DiskSink, DiskSource, the repair in Experiment.run) that have to agree; the harness takes the framing
# from the magic bytes of the file the uninterrupted run leaves, not from the name.
NAMES = {'plain': 'r.log', 'gz': 'r.log.gz', 'mid': 'r.gz.bak', 'ext': 'r.log.gzip', 'num': 'r.gz.1', 'dir': 'sweep.gz.d/r.log',
         'dirgz': 'sweep.gz.d/r.log.gz', 'nodot': 'rgz.log'}


def fname(h): return NAMES[h.get('name') or h['kind']]


def name_class(h):
    n = fname(h)
    return ', file name with ".gz" not at its end' if '.gz' in n and not n.endswith('.gz') else ''


def is_gz(data): return data[:2] == b'\x1f\x8b'


def pad_text(n, variant):
    """n characters of a fixed hardly compressible ASCII stream (prefix-stable in n)."""
    out, j = [], 0
    while 43 * j < n:
        out.append(base64.b64encode(hashlib.sha256(b'c02-pad-%d-%d' % (variant, j)).digest()).decode('ascii')[:43]); j += 1
    return ''.join(out)[:n]


BLOCK = 2 ** 16          # the buffer size that is visible in the recovery code (Experiment._drop_unfinished_line / _member)


def record_ends(data, gz):
    """End offsets (in the file) of the records of a COMPLETE log: line ends (plain) / gzip member ends (gz)."""
    ends = []
    if not gz:
        i = data.find(b'\n')
        while i >= 0:
            ends.append(i + 1); i = data.find(b'\n', i + 1)
        return ends
    rest = data
    while rest:
        d = zlib.decompressobj(wbits=31)
        d.decompress(rest)
        if not d.eof: break
        rest = d.unused_data
        ends.append(len(data) - len(rest))
    return ends


def block_offsets(data, gz):
    """The STATED finite set of cut offsets of a log with one record longer than two blocks: with n = |file| and [a,b) the extent of
    the longest record, every offset base + j*BLOCK + d and base - j*BLOCK + d for base in {0, a, b, n}, j = 0,1,2,..., d in -3..3
    (block boundaries counted from the start of the file, from the start and the end of the long record and from the END of the file,
    and the first / last 3 bytes of the long record), plus e-1, e, e+1 for every record boundary e; clipped to 0..n."""
    n = len(data)
    ends = record_ends(data, gz)
    starts = [0] + ends[:-1]
    a, b = max(zip(starts, ends), key=lambda ab: ab[1] - ab[0])
    ks = set()
    for base in (0, a, b, n):
        for j in range(n // BLOCK + 2):
            for d in range(-3, 4):
                ks.add(base + j * BLOCK + d); ks.add(base - j * BLOCK + d)
    for e in ends:
        ks.update((e - 1, e, e + 1))
    return sorted(k for k in ks if 0 <= k <= n), (a, b)


class C02(Check):
    ID = 'C02'
    LEVEL = 'fault_enumeration'
    ENGINE = 'CRASH'
    RULE = ('write histories = the result log of a real in-process Experiment.run for each (shape, order of the triple list, record order, '
            'plain|.gz); shapes: S1 1 triple, S2 2 envs x 2 learners, S4 explicit list of 4 triples with a shared learner and two evaluators; '
            'record order: as written, or the records after the preamble reversed / rotated by half (what a multi-process run may leave); fault '
            'positions = EVERY byte-prefix length 0..|L| of the file (a case is a contiguous chunk of them); quick: 6 triple orders of S2 and 4 of S4, '
            'reversed records for the first order; thorough: all 24 triple orders of S2 and S4 x 3 record orders, and second-level crashes (every prefix, '
            'from the first changed byte on, of every resumed file of S1 and of S2 with reversed records that is not itself a prefix of L; identical '
            'file contents are resumed once per case). A fault position is non-trivial when the prefix ends inside a record (after at least one byte '
            'of it and before its newline / the end of its gzip member). Shape S5 (3 triples; ONE interaction record of 56 rows x 4096 hardly compressible '
            'characters = 229 kB plain / 174 kB gz, i.e. > 2 blocks of the 65536-byte buffer the recovery code uses, between small records) is not cut at '
            'every byte but at a stated finite offset set: with n = |file| and [a,b) the long record, every base+j*65536+d and base-j*65536+d for base in '
            '{0,a,b,n}, all j, d in -3..3 (block boundaries counted from the start and from the END of the file and from both ends of the long record, its '
            'first/last 3 bytes) plus e-1,e,e+1 for every record boundary e (plain and gz; thorough: 3 triple orders x 3 record orders). Shape S6 (4 triples, '
            'one of them evaluated by a custom evaluator that yields ZERO rows, record ["I",ids,{"_packed":{}}], between normal triples) is cut at every byte '
            'incl. the complete file (thorough: 3 record orders). File names: besides r.log / r.log.gz, S1 (thorough also S2) is run on names with ".gz" inside '
            'the base name (r.gz.bak), as a longer extension (r.log.gzip), before a number (r.gz.1), in a directory name (sweep.gz.d/r.log, sweep.gz.d/r.log.gz) '
            'and "gz" without dot (rgz.log), every byte-prefix each; the gz/plain framing is taken from the magic bytes the real writer leaves. Block-aligned '
            'record boundaries: S1 with the experiment description padded (hardly compressible text; length found with the real DiskSink) so that record i '
            '(1 = the long experiment record, 4 = the E record behind it) ENDS exactly at file offset T; quick: gz (i,T) in {(1,65535),(1,65536),(1,65537),'
            '(1,131072),(4,65536)} and plain (1,65536); thorough: gz and plain x i in {1,4} x T in {65536,131072}+{-1,0,1}; cut at every byte from T-8 to the '
            'end of the file plus the block-straddling offset set above; thorough additionally cuts the gz (1,65536) log at EVERY byte')
    ASSUMPTIONS = [
        'crash model: a killed run leaves a byte-prefix of the append-only log (process kill; no page-cache reordering, no power loss)',
        'resumed runs are in-process, plus - for the first order of the 2x2 / 4-triple shapes - on worker processes (2,0,0) [thorough also (1,1,1),(2,1,0)] run on the simulated spawn context under the default schedule only (schedules of the resumed run are C01\'s subject)',
        'the resumed experiment is a fresh, identical experiment: same triple list in the same order (ids are assigned by first appearance), same seed',
        'what counts as recorded does not depend on how the writer framed the file: content = the longest decodable text of the prefix (plain: its bytes; '
        '.gz: its complete gzip members plus whatever still decompresses out of the torn rest); a triple is recorded iff its whole "I" line including the '
        'line end is in the content, except that the LAST record of the content may be redone when it is partly written or ends inside the torn rest '
        'of a .gz file (a record whose JSON text is complete but whose line end is missing may be kept or redone); every earlier record must not be '
        'evaluated again; the result must be right either way',
        'byte-identity of the final file and the position of records in it are not constrained; undecodable lines in the final file are tolerated as long '
        'as Result.from_file / Experiment.run cope with them',
        'timing columns (predict_time, learn_time) are ignored; a column that is absent equals a column that is None; column order is not compared; '
        'the ROW order of all four tables is compared (a Result equal to the uninterrupted one lists the same rows in the same order)',
        'the version line may occur more than once in the final file (harmless); E/L/V/I records may not',
        'how often a triple that is NOT recorded is evaluated by the resumed run is not constrained (its rows must be right)',
        're-ordered logs are built from the real records of the real run, written through the real DiskSink(batch=1)',
        'whether a result file name means gzip framing is not constrained: the framing is read off the file the uninterrupted run leaves; only that write, '
        'read and repair agree for every name is demanded (through the resume oracle)',
        'the mtime in gzip member headers and the clock read by SequentialCB(record=time) are pinned, so that the write history of a shape is one '
        'byte string (checked: two uninterrupted runs must leave identical bytes); environments are a cheap deterministic harness environment, '
        'learners and evaluators are real coba ones behind call-recording wrappers',
    ]
    TECHNIQUE = ('fault enumeration: every byte-prefix of the real transaction log (plain and .gz, several experiment shapes, triple orders and record '
                 'orders) is materialised, read with Result.from_file and resumed by a fresh identical Experiment.run with call-recording components; '
                 'result, evaluate calls and final file are compared with the uninterrupted run')
    LEVEL_TEXT = ('Every byte-prefix (between records and inside the record being written) of the result log of 3 experiment shapes x triple-list orders '
                  'x 2 (thorough 3) record orders x {plain, .gz} is resumed on the real code; thorough adds all 24 triple orders of the 4-triple shapes and '
                  'second-level crashes (the resumed run is killed too). The returned Result, the set of triples evaluated again and the ids in the final '
                  'file are checked against the uninterrupted run.')
    LEVEL_NOTE = ('the log with a multi-block record is cut at the block-straddling offset set only, not at every byte; in-process resume only; crash model = byte-prefix of the log (process kill); experiments of <=4 triples with <=4 interactions each; '
                  'multi-process record orders are represented by triple-list permutations and reversed / rotated record orders, not enumerated')
    MIN_NONTRIVIAL = {'quick': 20000, 'thorough': 250000}
    CASE_TIMEOUT = 300
    RESUME_CONFIGS = [[1, 0, 0]]

    # ---------------------------------------------------------------- enumeration

    def histories(self, tier):
        quick = tier == 'quick'
        for kind in ('plain', 'gz'):
            for lines in ('asis', 'rev') if quick else ('asis', 'rev', 'rot'):
                yield {'shape': 'S1', 'order': [0], 'lines': lines, 'kind': kind, 'level2': not quick}
        for order in ([0, 1, 2],) if quick else ([0, 1, 2], [1, 0, 2], [2, 1, 0]):
            for kind in ('plain', 'gz'):
                for lines in ('asis',) if quick else ('asis', 'rev', 'rot'):
                    yield {'shape': 'S5', 'order': order, 'lines': lines, 'kind': kind, 'offsets': 'blocks'}
        for kind in ('plain', 'gz'):
            for lines in ('asis',) if quick else ('asis', 'rev', 'rot'):
                yield {'shape': 'S6', 'order': [0, 1, 2, 3], 'lines': lines, 'kind': kind}
        # file names: ".gz" inside the base name / as a longer extension / before a number / in a directory name / "gz" without dot
        for name in ('mid', 'ext', 'num', 'dir', 'dirgz', 'nodot'):
            for shape, order in (('S1', [0]),) if quick else (('S1', [0]), ('S2', [0, 1, 2, 3])):
                yield {'shape': shape, 'order': order, 'lines': 'asis', 'kind': 'gz' if '.gz' in NAMES[name] else 'plain', 'name': name}
        # a record boundary exactly on / next to a multiple of the 64 KiB buffer of the repair routines (padded experiment description)
        if quick:
            aligned = [('gz', 1, BLOCK - 1), ('gz', 1, BLOCK), ('gz', 1, BLOCK + 1), ('gz', 1, 2 * BLOCK), ('gz', 4, BLOCK), ('plain', 1, BLOCK)]
        else:
            aligned = [(kind, i, j * BLOCK + d) for kind in ('gz', 'plain') for i in (1, 4) for j in (1, 2) for d in (-1, 0, 1)]
        for kind, i, T in aligned:
            yield {'shape': 'S1', 'order': [0], 'lines': 'asis', 'kind': kind, 'align': [i, T], 'offsets': 'align'}
        if not quick:       # the heavy sweep: EVERY byte-prefix of a .gz log whose 64 KiB record ends exactly on the block boundary
            yield {'shape': 'S1', 'order': [0], 'lines': 'asis', 'kind': 'gz', 'align': [1, BLOCK], 'offsets': 'all'}
        o2 = ORD_S2_QUICK if quick else [list(p) for p in itertools.permutations(range(4))]
        o4 = ORD_S4_QUICK if quick else [list(p) for p in itertools.permutations(range(4))]
        for shape, orders in (('S2', o2), ('S4', o4)):
            for oi, order in enumerate(orders):
                for kind in ('plain', 'gz'):
                    for lines in ('asis', 'rev', 'rot'):
                        if quick and (lines == 'rot' or (lines == 'rev' and oi > 0)): continue
                        h = {'shape': shape, 'order': order, 'lines': lines, 'kind': kind}
                        if not quick and shape == 'S2' and oi == 0 and lines == 'rev': h['level2'] = True
                        yield h

    def cases(self, tier):
        for h in self.histories(tier):
            cfgs = list(self.RESUME_CONFIGS)
            # re-runs "using any execution configuration": worker processes on the simulated spawn context (default schedule)
            if h['shape'] in ('S2', 'S4') and h['lines'] == 'asis' and h['order'] == [0, 1, 2, 3] and not h.get('level2'):
                if tier == 'quick':
                    if h['kind'] == 'plain' and h['shape'] == 'S2': cfgs += [[2, 0, 0]]
                else:
                    cfgs += [[2, 0, 0], [1, 1, 1], [2, 1, 0]]
            for cfg in cfgs:
                n = {'S1': 6, 'S2': 16, 'S4': 24, 'S5': 16, 'S6': 16}[h['shape']] * (3 if h['kind'] == 'gz' and h['shape'] != 'S5' else 2) // 2
                if h.get('align'): n = 512 if h['offsets'] == 'all' else 16
                for i in range(n):
                    yield {**h, 'config': cfg, 'chunk': [i, n]}

    # ---------------------------------------------------------------- execution

    def setup(self, tier):
        CobaContext.search_paths = []
        CobaContext.cacher = MemoryCacher()
        CobaContext.logger = NullLogger()
        self._refs = {}
        self._pads = {}
        self._pid = os.getpid()

    def _path(self, sub, h):
        p = os.path.join(_SCRATCH, str(os.getpid()), sub, fname(h))      # same name everywhere: the base name goes into the gzip member headers
        os.makedirs(os.path.dirname(p), exist_ok=True)
        return p

    def _description(self, h):
        """The experiment description of a history.  None, or for h['align'] = [i, T] the padding text that makes record i of the
        uninterrupted log END exactly at file offset T (plain: one byte per character; gz: searched with the real DiskSink)."""
        al = h.get('align')
        if not al: return None
        key = json.dumps([h['shape'], h['order'], fname(h), al])
        if key in self._pads: return self._pads[key]
        i, T = al
        path, n0 = self._path('pad', h), T
        for variant in range(6):
            if os.path.exists(path): os.unlink(path)
            st, snap, _ = self._run(h, path, [], desc=pad_text(n0, variant))
            if st != 'ok': raise HarnessError(f'probe run of {key} raised {snap!r}')
            with open(path, 'rb') as f: L0 = f.read()
            os.unlink(path)
            gz = is_gz(L0)
            ends = record_ends(L0, gz)
            need = T - ends[i]
            if not gz:
                found = n0 + need
            else:
                line0 = (gz_members(L0)[0]).decode('utf-8').split('\n')[1]
                if pad_text(n0, variant) not in line0: raise HarnessError(f'padding of {key} not found in the experiment record')
                target = ends[1] - ends[0] + need

                def size(n):
                    if os.path.exists(path): os.unlink(path)
                    DiskSink(path, batch=1).write([line0.replace(pad_text(n0, variant), pad_text(n, variant))])
                    with open(path, 'rb') as f: b = f.read()
                    os.unlink(path)
                    return record_ends(b, True)[0]
                lo, hi = 1, 4 * n0
                while lo < hi:
                    mid = (lo + hi) // 2
                    if size(mid) >= target: hi = mid
                    else: lo = mid + 1
                found = next((n for n in range(max(1, lo - 4), lo + 5) if size(n) == target), None)
            if found is not None and found > 0:
                self._pads[key] = pad_text(found, variant)
                return self._pads[key]
        raise HarnessError(f'no padding found that puts the end of record {i} of {key} at offset {T}')

    def _run(self, h, path, log, config=(1, 0, 0), desc=None):
        """One real Experiment.run on fresh components: ('ok', snapshot, calls) | ('exc', exception, calls).
        A multi-process configuration runs on the simulated spawn context under the scheduler's default schedule."""
        if desc is None: desc = self._description(h)
        del parts.CALLS[:]
        _CLOCK.t = 0.0
        def body():
            CobaContext.logger = NullLogger(ListSink(log))
            CobaContext.cacher = MemoryCacher()
            exp = Experiment(parts.triples(h['shape'], h['order']), description=desc)
            res = exp.run(path, quiet=True, processes=config[0], maxchunksperchild=config[1], maxtasksperchunk=config[2])
            return snapshot(res)
        try:
            if tuple(config) == (1, 0, 0):
                return 'ok', body(), list(parts.CALLS)
            ex = sched.execute(body, (), 'low')
            if ex.deadlock or ex.livelock:
                return 'exc', RuntimeError('the resumed multi-process run hangs'), list(parts.CALLS)
            kind, val = ex.result
            if kind == 'exc':
                if not isinstance(val, Exception): raise val
                return 'exc', val, list(parts.CALLS)
            return 'ok', val, list(parts.CALLS)
        except Exception as e:      # noqa - classified by the caller
            return 'exc', e, list(parts.CALLS)
        finally:
            CobaContext.logger = NullLogger()
            CobaContext.store.pop('experiment_seed', None)

    def _load(self, path):
        try:
            return 'ok', snapshot(Result.from_file(path))
        except Exception as e:      # noqa
            return 'exc', e

    def reference(self, h):
        """(log bytes L, snapshot of the uninterrupted run) of a history; self-tested for determinism; cached per worker."""
        key = json.dumps([h['shape'], h['order'], h['lines'], fname(h), h.get('align')])
        if getattr(self, '_pid', None) != os.getpid(): self.setup('quick')
        if key in self._refs: return self._refs[key]
        path = self._path('ref', h)
        seen = []
        for _ in range(2):
            if os.path.exists(path): os.unlink(path)
            log = []
            st, snap, calls = self._run(h, path, log)
            if st != 'ok': raise HarnessError(f'the uninterrupted run of {key} raised {snap!r}')
            want = sorted(parts.triple_ids(h['shape'], h['order']).values())
            if sorted(calls) != want: raise HarnessError(f'the uninterrupted run of {key} evaluated {calls}, expected each of {want} once')
            zero = parts.zero_row_triples(h['shape'])
            ids = {i for i, t in parts.triple_ids(h['shape'], h['order']).items() if t not in zero}
            if {k[:3] for k in snap['interactions']} != ids: raise HarnessError(f'the uninterrupted run of {key} has no rows for some triple; log: {log}')
            with open(path, 'rb') as f: seen.append((f.read(), snap))
        (L1, s1), (L2, s2) = seen
        if L1 != L2 or any(table_diff(s1[n], s2[n]) for n, _ in TABLES) or not same(s1['experiment'], s2['experiment']):
            raise HarnessError(f'two uninterrupted runs of {key} differ (captured nondeterminism)')
        L = L1
        gz = is_gz(L)
        if h.get('align') and record_ends(L, gz)[h['align'][0]] != h['align'][1]:
            raise HarnessError(f"record {h['align'][0]} of {key} ends at {record_ends(L, gz)[h['align'][0]]}, not at {h['align'][1]}")
        if h['lines'] != 'asis':
            # what a multi-process run may leave: the real records in another order, re-written through the real sink
            text = gz_members(L)[0] if gz else L
            lines = reorder([l for l in text.decode('utf-8').split('\n') if l], h['lines'])
            os.unlink(path)
            DiskSink(path, batch=1).write(lines)
            with open(path, 'rb') as f: L = f.read()
            st = self._load(path)
            if st[0] != 'ok' or any(table_diff(s1[n], st[1][n], order=False) for n, _ in TABLES):     # (row order: judged at the crash points)
                raise HarnessError(f'the re-ordered complete log of {key} does not decode to the same Result: {st[1]!r}')
        if os.path.exists(path): os.unlink(path)
        a = analyse(L, gz)
        if a['tail'] or any(r is None for r in a['records']): raise HarnessError(f'the harness cannot parse the complete log of {key}')
        self._refs[key] = (L, s1)
        return self._refs[key]

    # ---- one crash point

    def crash_point(self, h, gz, data, ref, acc, feature, witness):
        """Materialise `data` as the result file, read it, resume on it, check.  -> bytes of the resumed file or None."""
        ids2tags = parts.triple_ids(h['shape'], h['order'])
        a = analyse(data, gz)
        have = rec_ids(a['records'])
        maybe = rec_ids(a['exempt'] + ([a['tail_record']] if a['tail_record'] is not None else []))     # may be kept or redone
        path = self._path('cut', h)
        with open(path, 'wb') as f: f.write(data)
        found = []

        # exceptions are keyed with the exact kind of crash point; wrong results / repeated work only with the file kind and
        # whether the file ends in a partial record (where the cut falls inside the file does not discriminate root causes there)
        coarse = ('gz' if gz else 'plain') + (' file ending in a partial record' if a['tail'] else ' file of complete records') + name_class(h)

        def bad(key, what, fine=False):
            found.append(key)
            feat = fine if isinstance(fine, str) else feature if fine else coarse
            acc.violation(f'{key}|{feat}', what if len(what) <= 700 else what[:700] + ' ...', witness)

        try:
            # ---- (d) the truncated file is readable and shows what is complete in it
            st = self._load(path)
            if st[0] == 'exc':
                bad(f'from_file|raises {type(st[1]).__name__}@{where_raised(st[1])} on the interrupted file', f'Result.from_file raised {st[1]!r}', True)
            else:
                snap = st[1]
                for t in have['I']:
                    want = {k: v for k, v in ref['interactions'].items() if k[:3] == t}
                    got = {k: v for k, v in snap['interactions'].items() if k[:3] == t}
                    d = table_diff(want, got)
                    if d: bad(f'from_file|complete interaction record not shown ({d[0]})', f'triple {t}: {d[1]}'); break
                for c, name in REC_TABLE.items():
                    miss = [i for i in have[c] if (i,) not in snap[name]]
                    if miss: bad(f'from_file|complete parameter record not shown', f'{name} ids {miss} are complete in the file but not in the table')
                extra = {k[:3] for k in snap['interactions']} - set(have['I']) - set(maybe['I'])
                if extra: bad('from_file|shows rows of a record that is not in the file', f'triples {sorted(extra)}')
            # ---- resume with a fresh identical experiment
            log = []
            st, val, calls = self._run(h, path, log, h.get('config') or (1, 0, 0))
            acc.count('resumed_runs')
            if st == 'exc':
                bad(f'resume|Experiment.run raises {type(val).__name__}@{where_raised(val)}', f'Experiment.run on the interrupted file raised {val!r}', True)
                acc.outcome((feature, 'run raised', type(val).__name__))
                return None
            snap = val
            # (a) the Result
            for name, _ in TABLES:
                d = table_diff(ref[name], snap[name])
                if d: bad(f'result|{name} of the resumed run differ from the uninterrupted run ({d[0]})', f'{d[1]}; log: {[str(l)[:200] for l in log if "Experiment" not in str(l)][:2]}')
            if not same(ref['experiment'], snap['experiment']):
                bad('result|experiment record of the resumed run differs from the uninterrupted run', f"{snap['experiment']} instead of {ref['experiment']}", True)
            # (b) nothing recorded is evaluated again
            # (a record of an evaluation that yielded no rows - ["I",ids,{"_packed":{}}] - is a record like any other; keyed apart)
            norows = {t for t in ids2tags if not any(k[:3] == t for k in ref['interactions'])}
            again = [t for t in have['I'] if t in ids2tags and ids2tags[t] in calls]
            ZERO = 'record of an evaluation that yielded zero rows'       # one root cause whatever the cut: keyed by that feature alone
            for sel, feat in (([t for t in again if t not in norows], False), ([t for t in again if t in norows], ZERO)):
                if sel: bad('resume|triple with a complete record in the file is evaluated again', f'ids {sel} recorded in the file, evaluate calls {calls}', feat)
            # (c) the final file
            with open(path, 'rb') as f: final = f.read()
            st = self._load(path)
            if st[0] == 'exc':
                bad(f'file|Result.from_file of the resumed file raises {type(st[1]).__name__}', repr(st[1]), True)
            else:
                for name, _ in TABLES:
                    d = table_diff(snap[name], st[1][name])
                    if d: bad(f'file|Result.from_file of the resumed file differs from the returned Result ({name}: {d[0]})', d[1])
            fin = analyse(final, gz)
            fids = rec_ids(fin['records'] + fin['exempt'] + ([fin['tail_record']] if fin['tail_record'] is not None else []))
            dup = sorted({t for t in fids['I'] if fids['I'].count(t) > 1})
            for sel, feat in (([t for t in dup if t not in norows], False), ([t for t in dup if t in norows], ZERO)):
                if sel: bad('file|interaction record written twice', f'triples {sel} occur {[fids["I"].count(t) for t in sel]} times in the final file', feat)
            for c, name in REC_TABLE.items():
                dup = sorted({i for i in fids[c] if fids[c].count(i) > 1})
                if dup: bad(f'file|parameter record written twice', f'{name} ids {dup} occur more than once in the final file')
            acc.outcome((feature, len(have['I']), len(calls), tuple(sorted(set(found)))))
            return None if found else final
        finally:
            if os.path.exists(path): os.unlink(path)

    def run_case(self, case, acc):
        h = case
        L, ref = self.reference(h)
        gz = is_gz(L)           # the framing the real writer chose for this file name
        n = len(L)
        if 'k' in case:
            ks = [case['k']]
        elif h.get('offsets') == 'blocks':      # a log with a record of several blocks: the stated finite offset set, not every prefix
            allk, (a0, b0) = block_offsets(L, gz)
            if b0 - a0 <= 2 * BLOCK: raise HarnessError(f'the long record of {h} is only {b0 - a0} bytes')
            i, N = case['chunk']
            ks = allk[i * len(allk) // N:(i + 1) * len(allk) // N]
        elif h.get('offsets') == 'align':       # a record boundary on a block boundary: every byte from just before it to the end + the block set
            allk = sorted(set(block_offsets(L, gz)[0]) | set(range(max(0, h['align'][1] - 8), n + 1)) | {0, 1, 2, 3})
            i, N = case['chunk']
            ks = allk[i * len(allk) // N:(i + 1) * len(allk) // N]
        else:
            i, N = case['chunk']
            ks = range(i * (n + 1) // N, (i + 1) * (n + 1) // N)
        hkey = [h['shape'], h['order'], h['lines'], fname(h), h.get('align')]
        seen2 = set()       # second-level file contents already resumed in this case (same bytes + same experiment = same execution)
        for k in ks:
            data = L[:k]
            feature = position(data, gz, complete=(k == n)) + name_class(h)
            acc.count('prefixes')
            if k < n and analyse(data, gz)['tail']:
                acc.mark_nontrivial(hkey + [k]); acc.count('prefixes_cut_inside_a_record')
            base = {kk: v for kk, v in case.items() if kk not in ('chunk', 'k', 'k2', 'level2', 'offsets')}
            final = self.crash_point(h, gz, data, ref, acc, feature, {**base, 'k': k})
            if not (h.get('level2') or 'k2' in case) or final is None: continue
            # ---- second-level crashes: the resumed run is killed as well
            cp = 0
            while cp < min(k, len(final)) and final[cp] == data[cp]: cp += 1
            k2s = [case['k2']] if 'k2' in case else range(cp, len(final) + 1)
            for k2 in k2s:
                d2 = final[:k2]
                if d2 == L[:k2]:
                    acc.count('second_level_prefixes_equal_to_a_first_level_prefix'); continue
                if d2 in seen2:
                    acc.count('second_level_prefixes_already_resumed_in_this_case'); continue
                seen2.add(d2)
                acc.count('second_level_prefixes')
                f2 = position(d2, gz) + name_class(h)          # same classes as first-level crash points: one root cause, one key (the witness carries k2)
                if analyse(d2, gz)['tail']: acc.mark_nontrivial(hkey + [k, k2])
                self.crash_point(h, gz, d2, ref, acc, f2, {**base, 'k': k, 'k2': k2})
        return None

    def replay(self, witness, acc):
        return self.run_case(witness, acc)


CHECK = C02()
