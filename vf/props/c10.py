"""C10 - representation-changing filters keep the action <-> reward pairing (ENUM engine).

Every (interaction profile, chain of representation filters) below the bound is run through the REAL coba filters
(fresh filter objects, fresh interactions per case) and compared with a plain metamorphic reference:

    [rewards'(a') for a' in actions'] == [rewards(a) for a in actions]      (same for IGL feedbacks)
    actions'.index(action') == actions.index(action); logged reward / probability unchanged

The concrete new representation is never constrained.
"""
import re, itertools

from vf.core import Check, HarnessError

from coba.context import CobaContext, NullLogger, MemoryCacher
from coba.primitives import Categorical, BinaryReward, DiscreteReward, L1Reward, HammingReward, Environment, is_batch
from coba.environments import Environments
from coba.environments.filters import Repr, Flatten, Sparsify, Densify, Noise, Batch, Unbatch, Finalize, BatchSafe, Grounded
from coba.pipes.rows import HeadDense, SparseDense

CobaContext.search_paths = []
CobaContext.logger = NullLogger()
CobaContext.cacher = MemoryCacher()

# ------------------------------------------------------------------ alphabets: actions / context

LV2, LV3, LVQ = ['x', 'y'], ['x', 'y', 'z'], ['p', 'q']
HDR = {'a': 0, 'b': 1}


def C(v, lv): return Categorical(v, list(lv))


SP_NAMES = {'sp1': ['q'], 'sp2': ['a', 'b'], 'sp3': ['c', 'd', 'e'], 'sp4': ['w', 'x', 'y', 'z']}
N_NAMES = {'sp1': 1, 'sp2': 2, 'sp3': 3, 'sp4': 4, 'sparse': 3}      # distinct feature names one environment of that kind uses


def make_actions(kind, v):
    """Fresh action list of `kind`; v=0 is the base set, v=1 a different set of the same kind (other order and length)."""
    if kind == 'num':       return [1, 2, 3] if v == 0 else [5, 3]
    if kind == 'str':       return ['a', 'b'] if v == 0 else ['b', 'c', 'a']
    if kind == 'cat2':      return [C('x', LV2), C('y', LV2)] if v == 0 else [C('y', LV2), C('x', LV2)]
    if kind == 'cat3':      return [C('z', LV3), C('x', LV3), C('y', LV3)] if v == 0 else [C('y', LV3), C('z', LV3)]
    if kind == 'vec':       return [(1, 0), (0, 1)] if v == 0 else [(0, 2), (3, 0), (1, 1)]
    if kind == 'lvec':      return [[1, 2], [3, 4]] if v == 0 else [[3, 4], [5, 6], [1, 2]]
    if kind == 'nest':      return [[1, [2, 3]], [4, [5, 6]]] if v == 0 else [[4, [5, 6]], [7, [8, 9]], [1, [2, 3]]]
    if kind == 'tnest':     return [(1, (2, 3)), (4, (5, 6))] if v == 0 else [(4, (5, 6)), (7, (8, 9)), (1, (2, 3))]
    if kind == 'sparse':    return [{'x': 1}, {'y': 2}] if v == 0 else [{'y': 2}, {'x': 1, 'y': 3}, {'z': 1}]
    if kind == 'snest':     return ([{'x': (1, 2), 'y': 3}, {'x': (4, 5), 'y': 6}] if v == 0 else
                                    [{'x': (4, 5), 'y': 6}, {'x': (7, 8), 'y': 9}, {'x': (1, 2), 'y': 3}])
    if kind == 'veccat':    return ([(1, C('x', LV3)), (2, C('y', LV3))] if v == 0 else
                                    [(2, C('z', LV3)), (1, C('x', LV3)), (3, C('y', LV3))])
    if kind == 'catvec':    return ([(C('x', LV2), 5, C('q', LVQ)), (C('y', LV2), 6, C('p', LVQ))] if v == 0 else
                                    [(C('y', LV2), 6, C('q', LVQ)), (C('x', LV2), 5, C('p', LVQ)), (C('x', LV2), 7, C('q', LVQ))])
    if kind == 'sparsecat': return ([{'key': C('x', LV3), 'n': 1}, {'key': C('y', LV3), 'n': 2}] if v == 0 else
                                    [{'key': C('z', LV3), 'n': 2}, {'key': C('x', LV3), 'n': 1}, {'key': C('y', LV3), 'n': 3}])
    if kind == 'nestcat':   return ([[[C('x', LV3), 1.0], 10.0], [[C('y', LV3), 2.0], 20.0]] if v == 0 else       # categorical in a list in a list
                                    [[[C('z', LV3), 3.0], 30.0], [[C('x', LV3), 1.0], 10.0], [[C('y', LV3), 2.0], 20.0]])
    if kind == 'tnestcat':  return ([((C('x', LV3), 1.0), 10.0), ((C('y', LV3), 2.0), 20.0)] if v == 0 else       # same, immutable containers
                                    [((C('z', LV3), 3.0), 30.0), ((C('x', LV3), 1.0), 10.0), ((C('y', LV3), 2.0), 20.0)])
    if kind == 'nscat':     return ([{'ns': [C('x', LV3), 1], 'v': 10}, {'ns': [C('y', LV3), 2], 'v': 20}] if v == 0 else   # namespaced: dict of list
                                    [{'ns': [C('z', LV3), 3], 'v': 30}, {'ns': [C('x', LV3), 1], 'v': 10}, {'ns': [C('y', LV3), 2], 'v': 20}])
    if kind == 'lnscat':    return ([[{'kk': C('x', LV3), 'n': 1}, 10], [{'kk': C('y', LV3), 'n': 2}, 20]] if v == 0 else         # dict in a list
                                    [[{'kk': C('z', LV3), 'n': 3}, 30], [{'kk': C('x', LV3), 'n': 1}, 10], [{'kk': C('y', LV3), 'n': 2}, 20]])
    if kind == 'spsub':     return ([{'a': 1}, {'a': 1, 'b': 2}, {'c': 3}] if v == 0 else        # an action's features contained in a later one; an empty action
                                    [{}, {'b': 2}, {'b': 2, 'c': 3}])
    if kind == 'vecsub':    return [(1, 0), (1, 2), (0, 3)] if v == 0 else [(0, 0), (0, 2), (3, 2)]   # same for dense vectors (zeros vanish under Sparsify)
    if kind in SP_NAMES:    # one-key sparse actions; every kind has its own feature names, v=1 lists them in another order
        names = SP_NAMES[kind]
        return [{k: 1} for k in names] if v == 0 else [{k: 2} for k in names[1:] + names[:1]]
    if kind == 'mixed':     return [1, 'a'] if v == 0 else ['a', 2, 'b']
    if kind == 'labels':    return [['a'], ['a', 'b'], ['c']] if v == 0 else [['c'], ['a', 'b']]
    if kind == 'head':      return ([HeadDense([1, 0], dict(HDR)), HeadDense([0, 2], dict(HDR))] if v == 0 else
                                    [HeadDense([0, 2], dict(HDR)), HeadDense([3, 1], dict(HDR)), HeadDense([1, 0], dict(HDR))])
    raise ValueError(kind)


AKINDS = ['num', 'str', 'cat2', 'cat3', 'vec', 'lvec', 'nest', 'tnest', 'sparse', 'snest', 'veccat', 'catvec',
          'sparsecat', 'nestcat', 'tnestcat', 'nscat', 'lnscat', 'spsub', 'vecsub', 'mixed', 'labels', 'head']
HASHABLE = {'num', 'str', 'cat2', 'cat3', 'vec', 'tnest', 'veccat', 'catvec', 'tnestcat', 'vecsub', 'mixed'}
SPARSE_CTX = {'sparse', 'snest', 'sparsecat', 'nscat', 'spsub'}


def make_context(akind, k):
    if akind in ('num', 'mixed') or akind in SP_NAMES: return None
    if akind == 'str':            return 's%d' % k
    if akind in ('cat2', 'cat3'): return C('q', LVQ)
    if akind == 'sparsecat':      return {'c': k + 1, 'dd': C('q', LVQ)}
    if akind in SPARSE_CTX:       return {'c': k + 1, 'd': C('q', LVQ)}
    return (k + 1, C('q', LVQ))


# ------------------------------------------------------------------ alphabets: rewards / feedbacks

REORDERED = ('discrete_perm', 'discrete_map', 'discrete_part')       # DiscreteReward not listing the interaction's actions in order


def reward_kinds(akind, tier):
    ks = ['list', 'binary', 'discrete', 'lambda', 'discrete_perm', 'discrete_part', 'binary0v', 'binary_neg', 'binary_zero']
    if akind in HASHABLE: ks.append('discrete_map')
    if akind == 'num': ks.append('l1')
    if akind == 'labels': ks.append('hamming')
    if tier != 'quick': ks += ['tuple']
    return ks


def _jaccard(a, b):
    i = sum(1 for x in a if x in b)
    return i / (len(a) + len(b) - i)


def make_fn(kind, akind, v, vals):
    """-> (reward object of `kind` over fresh copies of the actions, the values it is MEANT to give per action index)."""
    A = make_actions(akind, v)
    vals = list(vals)
    if kind == 'list':          return list(vals), vals
    if kind == 'tuple':         return tuple(vals), vals
    if kind == 'binary':        return BinaryReward(A[-1]), [0] * (len(A) - 1) + [1]
    if kind == 'binary0v':      return BinaryReward(A[0], 2.5), [2.5] + [0] * (len(A) - 1)      # the rarely used `value` argument
    if kind == 'binary_neg':    return BinaryReward(A[-1], -1), [0] * (len(A) - 1) + [-1]
    if kind == 'binary_zero':   return BinaryReward(A[0], 0), [0] * len(A)                      # falsy value: dropping it pays 1
    if kind == 'discrete':      return DiscreteReward(A, list(vals)), vals
    if kind == 'discrete_perm': return DiscreteReward(A[::-1], vals[::-1]), vals
    if kind == 'discrete_map':  return DiscreteReward(dict(zip(A[::-1], vals[::-1]))), vals
    if kind == 'discrete_part': return DiscreteReward(A[1:], vals[1:], default=vals[0]), vals
    if kind == 'l1':            return L1Reward(2), [-abs(a - 2) for a in A]
    if kind == 'hamming':       return HammingReward(['a', 'b']), [_jaccard(a, ['a', 'b']) for a in A]
    if kind == 'lambda':        return (lambda a, A=A, V=vals: V[A.index(a)]), vals
    raise ValueError(kind)


LEGACY_N = {'1': 'a', '1b': 'b', 'same': 'aa', 'diff': 'ab'}     # names used by older witnesses


def pattern(n):
    """Interaction pattern as a string over {a,b}: one letter per interaction, a = base action set, b = the different one."""
    return LEGACY_N.get(n, n)


def build_interactions(case):
    """-> (list of fresh interaction dicts, baseline per interaction) from the descriptor alone."""
    ak, rk, fk, lg = case['a'], case['r'], case['f'], case['lg']
    inters, base = [], []
    for k, v in enumerate(0 if c == 'a' else 1 for c in pattern(case['n'])):
        A = make_actions(ak, v)
        n = len(A)
        it = {'context': make_context(ak, k), 'actions': A}
        b = {'n': n, 'shown': show(A)}            # everything in b is plain data taken BEFORE any filter runs
        if rk is not None:
            it['rewards'], meant = make_fn(rk, ak, v, [(k * 4 + i + 1) / 8 for i in range(n)])
            b['rewards'] = observe(it['rewards'], A)
            if b['rewards'] != ('vals', meant): raise HarnessError(f'baseline rewards {b["rewards"]} != intended {meant} for {case}')
        if fk is not None:
            it['feedbacks'], meant = make_fn(fk, ak, v, [100 + k * 4 + i for i in range(n)])
            b['feedbacks'] = observe(it['feedbacks'], A)
            if b['feedbacks'] != ('vals', meant): raise HarnessError(f'baseline feedbacks {b["feedbacks"]} != intended {meant} for {case}')
        if lg is not None:
            j = lg[1] % n
            it['action'] = make_actions(ak, v)[j]         # an equal but distinct object
            it['reward'] = 0.625 + k
            it['probability'] = 0.25 / (k + 1)
            b['action'] = index_of(A, it['action'])
            if b['action'] != j: raise HarnessError(f'baseline logged index {b["action"]} != {j} for {case}')
            b['reward'], b['probability'] = it['reward'], it['probability']
        inters.append(it); base.append(b)
    return inters, base


# ------------------------------------------------------------------ alphabets: filters

CATS = [None, 'onehot', 'onehot_tuple', 'string']
N_LOOKUP, N_HASH = 16, 64


def noise_x10(x, rng):
    """Integer action noise that keeps distinct values distinct."""
    return x * 10 + rng.randint(0, 3)


OPS_FULL = ([('repr', cc, ca) for cc in CATS for ca in CATS] + [('flatten',)]
            + [('sparse', c, a) for c in (True, False) for a in (False, True)]
            + [('dense', m, c, a) for m in ('lookup', 'hashing') for c in (True, False) for a in (False, True)]
            + [('noise', 'c'), ('noise', 'a1'), ('noise', 'af')]
            + [('batch', 1), ('batch', 2), ('unbatch',), ('finalize',)])

OPS_CORE = [('repr', 'onehot', 'onehot'), ('repr', None, 'onehot'), ('repr', 'onehot_tuple', 'string'), ('repr', 'string', 'onehot_tuple'),
            ('flatten',), ('sparse', False, True), ('sparse', True, False), ('dense', 'lookup', False, True), ('dense', 'hashing', True, True),
            ('noise', 'af'), ('batch', 2), ('unbatch',), ('finalize',)]


def chains(ops, length):
    """All op sequences of exactly `length` that respect batching: batch only on unbatched data, and batched data
    only goes to unbatch / finalize (wrapped in BatchSafe, as Environments does) / the end of the chain."""
    def rec(prefix, batched):
        if len(prefix) == length:
            yield list(prefix); return
        for op in ops:
            k = op[0]
            if batched and k not in ('unbatch', 'finalize'): continue
            if not batched and k == 'unbatch': continue
            yield from rec(prefix + [list(op)], (k == 'batch') or (batched and k == 'finalize'))
    yield from rec([], False)


def n_feats(op):
    if len(op) > 4: return op[4]          # an explicit (small) table, only used where every single environment fits into it
    return N_LOOKUP if op[1] == 'lookup' else N_HASH


def make_filter(op, batched):
    k = op[0]
    if k == 'repr':     return Repr(op[1], op[2])
    if k == 'flatten':  return Flatten()
    if k == 'sparse':   return Sparsify(context=op[1], action=op[2])
    if k == 'dense':    return Densify(n_feats=n_feats(op), method=op[1], context=op[2], action=op[3])
    if k == 'noise':
        if op[1] == 'c':  return Noise(context=('i', 1, 1))
        if op[1] == 'a1': return Noise(action=('i', 1, 1))
        if op[1] == 'af': return Noise(action=noise_x10)
    if k == 'batch':    return Batch(op[1])
    if k == 'unbatch':  return Unbatch()
    if k == 'finalize': return BatchSafe(Finalize()) if batched else Finalize()
    raise ValueError(op)


def apply_shortcut(envs, op):
    k = op[0]
    if k == 'repr':     return envs.repr(op[1], op[2])
    if k == 'flatten':  return envs.flatten()
    if k == 'sparse':   return envs.sparse(op[1], op[2])
    if k == 'dense':    return envs.dense(n_feats(op), op[1], op[2], op[3])
    if k == 'noise':
        if op[1] == 'c':  return envs.noise(context=('i', 1, 1))
        if op[1] == 'a1': return envs.noise(action=('i', 1, 1))
        if op[1] == 'af': return envs.noise(action=noise_x10)
    if k == 'batch':    return envs.batch(op[1])
    if k == 'unbatch':  return envs.unbatch()
    if k == 'finalize': return envs                       # no shortcut: reading an Environments member always ends in BatchSafe(Finalize())
    raise ValueError(op)


class ListEnv(Environment):
    def __init__(self, interactions): self._i = interactions
    @property
    def params(self): return {}
    def read(self): return list(self._i)


# ------------------------------------------------------------------ observation (plain Python)

def show(x):
    """Stable, readable rendering for messages (lazy rows as lists, no addresses)."""
    if isinstance(x, (SparseDense, HeadDense)):
        try: return f'{type(x).__name__}({list(x)!r})'
        except Exception as e: return f'{type(x).__name__}(<cannot be iterated: {type(e).__name__}>)'   # noqa
    if isinstance(x, list): return '[' + ', '.join(map(show, x)) + ']'
    return re.sub(r' at 0x[0-9a-f]+', '', repr(x))


LAZY = (SparseDense, HeadDense)


def observe(fn, actions):
    """What each action of `actions` earns from `fn` (a sequence pairs by position, a callable is asked)."""
    if callable(fn):
        out = []
        for a in actions:
            try:
                out.append(fn(a))
            except Exception as e:   # noqa
                return ('raises', type(e).__name__)
        return ('vals', out)
    if isinstance(fn, (list, tuple)): return ('vals', list(fn))
    return ('other', type(fn).__name__)


def index_of(actions, action):
    for i, a in enumerate(actions):
        try:
            if a == action: return i
        except Exception:            # noqa
            pass
    return None


def has_duplicates(actions):
    return any(index_of(actions, a) not in (i, None) for i, a in enumerate(actions))


def unbatch_plain(outs):
    """Own, boring unbatching of what the chain returned (batched values are indexed, everything else is shared)."""
    flat, groups = [], []
    for o in outs:
        bk = [k for k, v in o.items() if is_batch(v)]
        if not bk:
            flat.append(o); continue
        size = len(o[bk[0]])
        groups.append((len(flat), size, o))
        for j in range(size):
            flat.append({k: (v[j] if is_batch(v) else v) for k, v in o.items()})
    return flat, groups


def run_chain(case, inters):
    chain = case['chain']
    if case['via'] == 'envs':
        envs = Environments(ListEnv(inters))
        for op in chain: envs = apply_shortcut(envs, op)
        out = envs[0].read()
    else:
        out, batched = inters, False
        for op in chain:
            out = make_filter(op, batched).filter(out)
            batched = (op[0] == 'batch') or (batched and op[0] == 'finalize')
    return [dict(o) for o in out]


def input_failures(inters, base):
    """The interactions the caller handed in (and still holds) must keep their own pairing: a filter that rewrites
    caller-owned action objects in place breaks "what the i-th action earned before" for the source itself."""
    fails, rewritten = [], False
    for k, (old, b) in enumerate(zip(inters, base)):
        now = show(old['actions'])
        if now == b['shown']: continue
        rewritten = True
        for target in ('rewards', 'feedbacks'):
            if target in b and observe(old[target], old['actions']) != b[target]:
                fails.append(('input', f'rewritten in place, its {target} no longer pair with its actions',
                              f'interaction {k} handed to the chain had actions {b["shown"]} earning {b[target][1]}; after the chain ran the same '
                              f'input object has actions {now} earning {observe(old[target], old["actions"])[1]}'))
        if 'action' in b and index_of(old['actions'], old['action']) != b['action']:
            fails.append(('input', 'rewritten in place, its logged action is no longer the same member of its actions',
                          f'interaction {k} handed to the chain had actions {b["shown"]}; afterwards the same input object has actions {now} and action {show(old["action"])}'))
    return fails, rewritten


def raised(e, inters, base):
    infails, rewritten = input_failures(inters, base)
    return ([('chain', f'raises {type(e).__name__}', show(e)[:200])] + infails,
            {'changed': False, 'sig': ('raise', type(e).__name__), 'rewritten': rewritten, 'hashcol': False})


HISTORIES = (3, 350, 1400)        # x 3 actions: below / above the cache sizes 1024 and 4096


def build_grounded(case):
    """case['n'] IGL interactions as the REAL Grounded filter makes them (lazily drawn, memoised feedback functions), all
    inspected once (that inspection is the history: 3*n feedback evaluations) -> (interactions, snapshot)."""
    ak, sim = case['a'], []
    for k in range(case['n']):
        A = make_actions(ak, 0)
        vals = [((k + i) % len(A) + 1) / 8 for i in range(len(A))]           # the best action rotates
        sim.append({'context': k, 'actions': A, 'rewards': vals if case['r'] == 'list' else BinaryReward(make_actions(ak, 0)[k % len(A)])})
    inters = [dict(o) for o in Grounded(4, 2, 20, 10, 7).filter(sim)]
    base = []
    for it in inters:
        A = it['actions']
        b = {'n': len(A), 'shown': show(A), 'rewards': observe(it['rewards'], A), 'feedbacks': observe(it['feedbacks'], A)}
        if b['rewards'][0] != 'vals' or b['feedbacks'][0] != 'vals': raise HarnessError(f'Grounded baseline not observable: {b} for {case}')
        base.append(b)
    return inters, base


def evaluate(case):
    """Run one case on the real filters -> (failures, info).  failures: list of (target, mode, detail)."""
    if case['via'] in ('envs2', 'reuse'): return evaluate_multi(case)
    if case['via'] == 'mixed':
        # ONE stream whose interactions change their kind of actions on the way (seed C10-K: a decision taken on the first
        # interaction and kept for the stream): member 0's interactions followed by member 1's, one chain of filter objects
        i0, b0 = build_interactions(dict(member_case(case, 0), via='filters'))
        i1, b1 = build_interactions(dict(member_case(case, 1), via='filters', n=case['n2']))
        inters, base = i0 + i1, b0 + b1
        case = dict(case, via='filters')
        try:
            outs = run_chain(case, inters)
        except HarnessError:
            raise
        except Exception as e:   # noqa
            return raised(e, inters, base)
        return compare(case['chain'], inters, base, outs)
    if case['via'] == 'grounded':
        inters, base = build_grounded(case)
        case = dict(case, via=case['route'])
    else:
        inters, base = build_interactions(case)
    try:
        outs = run_chain(case, inters)
    except HarnessError:
        raise
    except Exception as e:   # noqa  (what coba raises is classified, not propagated)
        return raised(e, inters, base)
    return compare(case['chain'], inters, base, outs)


def member_case(case, i):
    """The single-environment case of member i of a two-environment / re-use case."""
    c = {k: v for k, v in case.items() if k not in ('a2', 'order')}
    c['a'] = case['a'] if i == 0 else case['a2']
    c['via'] = 'envs' if case['via'] == 'envs2' else 'filters'
    return c


def evaluate_multi(case):
    """via='envs2': ONE call of every shortcut on an Environments holding two environments with different data, members read
    in case['order'].  via='reuse': ONE set of filter objects applied to stream A, then B, then A again.  Every stream is
    compared with its own snapshot.  info['members'] = [(member index, failures)] in execution order."""
    chain = case['chain']
    data = [build_interactions(member_case(case, i)) for i in (0, 1)]
    if case['via'] == 'envs2':
        envs = Environments(ListEnv(data[0][0]), ListEnv(data[1][0]))
        for op in chain: envs = apply_shortcut(envs, op)
        runs = [(i, (lambda i=i: envs[i].read()), data[i]) for i in case['order']]
    else:
        filters, batched = [], False
        for op in chain:
            filters.append(make_filter(op, batched))
            batched = (op[0] == 'batch') or (batched and op[0] == 'finalize')
        def through(inters):
            out = inters
            for f in filters: out = f.filter(out)
            return out
        again = build_interactions(member_case(case, 0))
        runs = [(0, (lambda: through(data[0][0])), data[0]), (1, (lambda: through(data[1][0])), data[1]), (0, (lambda: through(again[0])), again)]
    allfails, members, sigs = [], [], []
    info = {'changed': False, 'rewritten': False, 'hashcol': False}
    for i, thunk, (inters, base) in runs:
        try:
            outs = [dict(o) for o in thunk()]
        except HarnessError:
            raise
        except Exception as e:   # noqa
            f, inf = raised(e, inters, base)
        else:
            f, inf = compare(chain, inters, base, outs)
        members.append((i, f)); allfails += f; sigs.append(inf['sig'])
        for k in ('changed', 'rewritten', 'hashcol'): info[k] = info[k] or inf[k]
    info['sig'] = (case['via'], tuple(sigs)); info['members'] = members
    return allfails, info


def compare(chain, inters, base, outs):
    """The oracle: what came out of the chain against the plain-data snapshot `base` taken before it ran."""
    flat, groups = unbatch_plain(outs)
    fails, rewritten = input_failures(inters, base)
    info = {'changed': bool(groups), 'sig': None, 'rewritten': rewritten, 'hashcol': False}
    if len(flat) != len(base):
        return fails + [('interactions', 'count changed', f'{len(base)} interactions in, {len(flat)} out')], dict(info, changed=True, sig='count')
    hashing = any(op[0] == 'dense' and op[1] == 'hashing' and op[3] for op in chain)
    for k, (old, b, new) in enumerate(zip(inters, base, flat)):
        A = new.get('actions')
        if A is None or len(A) != b['n']:
            fails.append(('actions', 'count changed', f'interaction {k}: {b["n"]} actions became {show(A)}')); continue
        if show(A) != b['shown']: info['changed'] = True
        if any(index_of([a], a) is None for a in A):
            fails.append(('actions', 'an action is not even equal to itself', f'interaction {k}: {show(A)}')); continue
        if has_duplicates(A):
            if hashing: info['sig'] = 'hash-collision'; info['hashcol'] = True; continue      # documented limitation of the hashing trick (never seen with N_HASH=64)
            fails.append(('actions', 'distinct actions became equal', f'interaction {k}: {show(A)}')); continue
        for target in ('rewards', 'feedbacks'):
            if target not in b: continue
            if target not in new:
                fails.append((target, 'dropped', f'interaction {k}')); continue
            if new[target] is not old[target]: info['changed'] = True
            got = observe(new[target], A)
            if got != b[target]:
                fails.append((target, 'no longer pair with actions',
                              f'interaction {k}: actions {b["shown"]} earned {b[target][1]}; after the chain {show(A)} earn {got[1]} ({type(new[target]).__name__})'))
            elif callable(new[target]) and any(isinstance(a, LAZY) for a in A):
                # what Harden/Finalize does next: lazy rows become plain lists and the reward function is asked with those
                try:
                    got = observe(new[target], [list(a) if isinstance(a, LAZY) else a for a in A])
                except Exception as e:   # noqa
                    got = ('raises', type(e).__name__)
                if got != b[target]:
                    fails.append((target, 'no longer pair with actions once the lazy action rows are materialised as lists',
                                  f'interaction {k}: actions {b["shown"]} earned {b[target][1]}; after the chain the list copies of {show(A)} earn {got[1]} ({type(new[target]).__name__})'))
        if 'action' in b:
            if 'action' not in new:
                fails.append(('action', 'dropped', f'interaction {k}'))
            else:
                j = index_of(A, new['action'])
                if j is None:
                    fails.append(('action', 'not a member of actions', f'interaction {k}: action {show(new["action"])} not in {show(A)}'))
                elif j != b['action']:
                    fails.append(('action', 'became another member of actions', f'interaction {k}: index {b["action"]} -> {j} in {show(A)}'))
            for t in ('reward', 'probability'):
                if new.get(t) != b[t]:
                    fails.append((t, 'changed', f'interaction {k}: {b[t]} -> {new.get(t)!r}'))
    # the batched call path: a batch of i-th actions must earn the batch of i-th rewards
    if not [f for f in fails if f[0] != 'input']:
        for start, size, o in groups:
            for target in ('rewards', 'feedbacks'):
                if target not in base[start] or not callable(o.get(target)): continue
                m = min(len(a) for a in o['actions'])
                for i in range(m):
                    try:
                        got = list(o[target]([a[i] for a in o['actions']]))
                    except Exception as e:   # noqa
                        got = type(e).__name__
                    exp = [base[start + j][target][1][i] for j in range(size)]
                    if got != exp:
                        fails.append((target, 'no longer pair with actions', f'batched call with the {i}-th actions gave {got}, expected {exp}')); break
    if info['sig'] is None:
        f0 = flat[0]
        info['sig'] = (type(f0['actions'][0]).__name__, type(f0.get('rewards')).__name__, type(f0.get('feedbacks')).__name__,
                       type(f0.get('action')).__name__, bool(groups), tuple(sorted({(t, m) for t, m, _ in fails})))
    return fails, info


# ------------------------------------------------------------------ classification of a failure (finding key)

COMP = {'repr': 'Repr', 'flatten': 'Flatten', 'sparse': 'Sparsify', 'dense': 'Densify', 'noise': 'Noise', 'batch': 'Batch',
        'unbatch': 'Unbatch', 'finalize': 'Finalize'}


def bucket(op, target):
    k = op[0]
    if k == 'repr':
        if target == 'action': return 'cat_context==cat_actions' if op[1] == op[2] else 'cat_context!=cat_actions'
        return ''
    if k == 'sparse': return f'action={op[2]}'
    if k == 'dense':  return f'action={op[3]}'
    if k == 'noise':  return 'context noise' if op[1] == 'c' else 'action noise'
    if k == 'batch':  return f'size={op[1]}'
    return ''


def same(fails, target, mode):
    return [f for f in fails if f[0] == target and f[1] == mode]


def reproduces(case, target, mode):
    return bool(same(evaluate(case)[0], target, mode))


CANON_A = ('num', 'vec', 'cat3', 'sparse', 'nest', 'veccat', 'sparsecat', 'nestcat', 'spsub')


def alone_candidates(cur, op):
    """Simpler cases in which the filter `op` is the whole chain (used to see whether a failure behind a longer chain is
    the failure the filter already shows on its own)."""
    base = dict(cur, chain=[op])
    fn = dict(base, r='discrete' if base['r'] is not None else None, f='discrete' if base['f'] is not None else None)
    seen = []
    for c in (base, dict(base, r=fn['r']), dict(base, f=fn['f']), fn):      # also unmask one target hidden behind the other
        if c not in seen: seen.append(c); yield c
    for a in CANON_A:
        if a != base['a']: yield dict(fn, a=a)


def diagnose(case, fails):
    """-> list of (key, detail, witness).  Component = the filter at the end of the shortest failing prefix (so a filter
    that merely trips over what an earlier one left behind is not blamed); feature = its parameter bucket + the minimal
    input features without which the same failure disappears (found by differential re-runs on simpler cases)."""
    chain, via = case['chain'], case['via']
    if via == 'grounded':
        out = []
        for target, mode in sorted({(t, m) for t, m, _ in fails}):
            n = next(h for h in HISTORIES if h >= case['n'] or reproduces(dict(case, n=h), target, mode))
            cur = dict(case, n=n)
            comp = COMP[chain[-1][0]] if chain else 'Finalize'
            if n == HISTORIES[0]: key = f'{comp}|{WHAT[target] + mode}|{(bucket(chain[-1], target) if chain else "") + " Grounded interactions"}'.replace('| ', '|')
            else: key = f'Grounded|{WHAT[target] + mode}|after a history of >={n} interactions'
            out.append((key, same(evaluate(cur)[0], target, mode)[0][2], cur))
        return out
    if via in ('envs2', 'reuse'):
        # a member that also fails on its own is an ordinary finding; otherwise the sharing is what breaks it
        out, seen = [], set()
        for i, f in evaluate(case)[1]['members']:
            if not f: continue
            alone = member_case(case, i)
            fa = evaluate(alone)[0]
            if fa:
                found = diagnose(alone, fa)
            else:
                comp = ('Environments.' if via == 'envs2' else '') + COMP[chain[-1][0]]
                how = 'one shortcut call over two environments' if via == 'envs2' else 'filter object re-used on another stream'
                found = [(f'{comp}|{WHAT[t] + m}|{(bucket(chain[-1], t) + " " + how).strip()}', same(f, t, m)[0][2], case)
                         for t, m in sorted({(t, m) for t, m, _ in f})]
            for item in found:
                if item[0] not in seen: seen.add(item[0]); out.append(item)
        return out
    eff = chain + ([['finalize']] if via == 'envs' else [])
    if not eff: raise HarnessError(f'the empty chain fails: {case} {fails}')
    if via == 'envs':
        f2 = evaluate(dict(case, chain=eff, via='filters'))[0]
        if not f2:       # only the Environments route fails
            out = []
            for target, mode in sorted({(t, m) for t, m, _ in fails}):
                key = f'Environments.{COMP[eff[-1][0]]}|{WHAT[target] + mode}|{bucket(eff[-1], target) or "-"}'
                out.append((key, same(fails, target, mode)[0][2], case))
            return out
        case, fails = dict(case, chain=eff, via='filters'), f2
    for q in range(1, len(eff)):
        c2 = dict(case, chain=eff[:q])
        f2 = evaluate(c2)[0]
        if f2: case, fails = c2, f2; break
    op = case['chain'][-1]
    out = []
    for target, mode in sorted({(t, m) for t, m, _ in fails}):
        cur, quals = case, []
        if len(cur['chain']) > 1:
            found = None
            if op[0] != 'unbatch':
                found = next((c for c in alone_candidates(cur, op) if reproduces(c, target, mode)), None)
            if found: cur = found
            else: quals.append('after ' + '+'.join(COMP[o[0]] for o in cur['chain'][:-1]))
        n, shrunk = pattern(cur['n']), True          # drop interactions while the same failure stays
        while len(n) > 1 and shrunk:
            shrunk = False
            for i in range(len(n)):
                c = n[:i] + n[i + 1:]
                if reproduces(dict(cur, n=c), target, mode): n, shrunk = c, True; break
        cur = dict(cur, n=n)
        if len(n) > 1: quals.append(f'interactions={n}')
        fam = ''
        for fld, tg in (('r', 'rewards'), ('f', 'feedbacks')):
            if cur[fld] in REORDERED and target in (tg, 'chain'):
                canon = dict(cur, **{fld: 'discrete'})
                if reproduces(canon, target, mode): cur = canon
                else: fam = f'{tg}=DiscreteReward listing the actions in another order'
        if not fam and target in ('rewards', 'feedbacks'):
            fam = 'given as a sequence' if cur['r' if target == 'rewards' else 'f'] in ('list', 'tuple') else 'given as a function'
        feat = ' '.join(x for x in [bucket(op, target), fam] + quals if x) or '-'
        got = same(evaluate(cur)[0], target, mode)
        if not got: raise HarnessError(f'reduced case does not reproduce ({target}, {mode}): {cur}')
        out.append((f'{COMP[op[0]]}|{WHAT[target] + mode}|{feat}', got[0][2], cur))
    return out


WHAT = {'rewards': 'rewards ', 'feedbacks': 'feedbacks ', 'action': 'logged action ', 'reward': 'logged reward ',
        'probability': 'logged probability ', 'input': 'caller-owned input ', 'chain': '', 'actions': '', 'interactions': 'interaction '}


# ------------------------------------------------------------------ the check

def profiles(tier):
    """(a, r, f, lg) interaction profiles, simplest first: one factor at a time around (action kind x reward kind)."""
    out = []
    fks = ['list', 'lambda', 'discrete', 'binary', 'discrete_perm', 'discrete_part', 'binary0v', 'binary_neg', 'binary_zero']
    for ak in AKINDS:
        for rk in reward_kinds(ak, tier): out.append((0, ak, rk, None, None))
    for ak in AKINDS:
        for j in (0, -1): out.append((1, ak, None, None, ['pure', j]))
        for rk in reward_kinds(ak, tier):
            for j in (0, -1): out.append((1, ak, rk, None, ['sim', j]))
            for fk in fks:      # every feedback kind next to list/discrete rewards, list/lambda feedbacks next to every reward kind
                if fk in ('list', 'lambda') or rk in ('list', 'discrete'): out.append((2, ak, rk, fk, None))
            if tier != 'quick': out.append((3, ak, rk, 'lambda', ['sim', -1]))
    out.sort(key=lambda t: t[0])
    return [t[1:] for t in out]


CORE_R = ('list', 'binary', 'binary0v', 'discrete', 'lambda', 'discrete_perm', 'l1', 'hamming')


def core_profiles(tier):
    return [p for p in profiles(tier) if p[1] in CORE_R + (None,) and p[2] in (None, 'list', 'lambda') and (p[3] is None or p[3][1] == -1)]


PATTERN_KINDS = ('cat2', 'cat3', 'veccat', 'nestcat', 'num', 'sparsecat')
GROUNDED_KINDS = ('num', 'cat3', 'veccat')          # GroundedFeedback memoises by action, so actions must be hashable
MULTI_KINDS = ('sp1', 'sp2', 'sp3', 'sp4', 'sparse', 'cat3', 'vec', 'nestcat')
MIXED_PAIRS = (('num', 'cat3'), ('str', 'cat3'), ('num', 'cat2'), ('str', 'cat2'), ('num', 'str'), ('str', 'num'))
MULTI_R = ('list', 'discrete', 'binary', 'binary0v', 'lambda')
MULTI_PROFILES = ([(r, None, None) for r in MULTI_R] + [(r, 'lambda', None) for r in MULTI_R]
                  + [(r, None, ['sim', -1]) for r in MULTI_R] + [(None, None, ['pure', 0])])


class C10(Check):
    ID = 'C10'
    LEVEL = 'exploration'
    ENGINE = 'ENUM'
    RULE = ('cases = (interaction profile, chain of representation filters, entry point). Profile: 22 action kinds (numbers, strings, '
            'Categoricals over 2/3 levels, tuples, lists, nested lists/tuples, sparse dicts incl. nested values, vectors/dicts holding '
            'Categoricals, Categoricals nested in list-in-list / tuple-in-tuple / dict-of-list / dict-in-list, sparse/dense sets where one action\'s features are contained in a later one and with an all-zero/empty action, mixed scalars, label lists, lazy HeadDense rows) x reward kind (list, tuple, BinaryReward with default value and with value 2.5 / -1 / 0, DiscreteReward in '
            'action order / reversed order / as mapping / partial with default, L1Reward, HammingReward, plain lambda) x one of {no extra, '
            'IGL feedbacks of 9 kinds (every kind next to list/discrete rewards, list/lambda feedbacks next to every reward kind), logged action at first/last index with or without rewards} x interaction histories over two action sets (all of {A,B}^<=4 for 6 action kinds incl. categoricals, '
            '<=3 interactions for the rest). Chains: every sequence over the 36-op alphabet Repr(4x4) | Flatten | Sparsify(2x2) | Densify(2 methods x 2x2) | '
            'Noise(context / action const / action callable) | Batch(1|2) | Unbatch | Finalize that respects batching, enumerated '
            'exhaustively by length, simplest first; applied as filter objects and through the Environments shortcuts; plus, for 8 action kinds with different feature names/lengths, '
            'every shortcut called ONCE on an Environments of two different environments (members read in both orders) and every filter OBJECT '
            're-used on streams A, B, A, each stream against its own snapshot. A case is '
            'non-trivial when the chain ran and changed the actions\' representation, replaced a reward/feedback object or batched.')
    ASSUMPTIONS = [
        'the concrete new representation of actions/context is not constrained, only pairing by position and membership by ==',
        'streams whose kind of actions changes on the way are explored in the direction plain (numbers/strings) -> categorical and plain -> plain only, without a logged action: coba decides WHICH fields need encoding (context, logged action, categorical rows) on the first interaction of a stream, so on the unchanged tree a logged categorical action behind plain first interactions is left unencoded (no longer a member of the one-hot action set) and a categorical-first stream followed by plain actions raises AttributeError; both were observed while building this family and are recorded in DESIGN.md section 7 as not demanded (heterogeneous streams are not produced by any coba source), only the reward/feedback pairing is demanded there',
        'a sequence reward (list/tuple/Batch.List) pairs by position; a callable reward is asked with the action object found in the new action list',
        'duplicate actions inside one interaction are not generated; if Densify(method=hashing, action=True) is in the chain and two actions become equal (hash collision, documented) nothing is demanded',
        'reward noise is not used (it changes rewards by design); action noise is integer and injective so actions stay distinct',
        'batched interactions are only passed to Unbatch, to BatchSafe(Finalize()) (what Environments appends) or returned; unbatched filters on batched data are outside the alphabet',
        'logged action membership is by == (a Categorical equals its string), so Repr(None,"string") leaving the logged action categorical is accepted',
        'contexts are present but never inspected; exceptions raised by a filter or by a re-represented reward function are violations because the statement promises a result for these inputs',
        'reward/feedback functions are built over independent copies of the actions (no aliasing with interaction["actions"]); what every action earns and a rendering of the actions are recorded as plain data BEFORE the chain runs',
        'secondary oracle: if a chain rewrites the caller\'s input action objects in place, the input interactions must still pair their own actions with their own rewards/feedbacks/logged action (reported under its own "caller-owned input" key); in-place edits without a pairing consequence (e.g. list rewards) are only counted (counter input_actions_rewritten_in_place)',
        'lazy action rows (SparseDense, HeadDense) are additionally asked as plain list copies, which is what Harden/Finalize hands to the reward function next; tuples/lists/dicts are never converted',
        'history dimension: IGL interactions produced by the real Grounded filter (memoised, lazily drawn feedback) are all inspected once (3, 350, thorough 1400 interactions x 3 actions, i.e. below/above cache sizes 1024 and 4096) before the representation change; the snapshot is that inspection',
        'multi-environment / re-use cases: Densify(lookup) tables are sized so that every SINGLE environment (shortcut) resp. all streams together (one re-used filter object) fit; collisions beyond n_feats within one table are documented behaviour and never generated',
        'a two-environment or re-use case whose member also fails alone is reported under the ordinary key; only otherwise under "one shortcut call over two environments" / "filter object re-used on another stream"',
        'Cycle is not in the statement\'s list and is not explored; torch batches are absent from the environment',
        'a failing case is attributed to the filter ending its shortest failing prefix; a longer chain that only trips over an earlier filter\'s failure gets no key of its own',
    ]
    TECHNIQUE = ('bounded-exhaustive enumeration of interaction profiles x filter chains on the real coba filters, metamorphic oracle '
                 '[rewards\'(a\') for a\' in actions\'] == [rewards(a) for a in actions], logged index/reward/probability preserved; '
                 'failing cases are classified by shortest failing prefix and differential re-runs')
    LEVEL_TEXT = ('quick: every chain of length <=1 over the full 36-op alphabet x every interaction profile x {1, 2 same, 2 different, '
                  'same-same-different} interactions, as filter objects and through the Environments shortcuts, plus every batching-respecting '
                  'chain of length 2 over a 13-op core alphabet x core profiles; thorough: length <=2 over the full alphabet x all profiles, '
                  'length 2 (Environments) and length 3 (filters) over the core alphabet. Each case runs on fresh real filter objects and is '
                  'compared with the position pairing observed before the chain; exhaustive below the bound, nothing sampled.')
    LEVEL_NOTE = ('small-scope: <=4 interactions of <=4 actions, chains <=2 (3); entry through filter objects and Environments shortcuts; '
                  'representation itself unconstrained; hashing collisions, reward noise and torch batches excluded')
    MIN_NONTRIVIAL = {'quick': 50000, 'thorough': 1000000}
    CASE_TIMEOUT = 30

    def cases(self, tier):
        quick = tier == 'quick'
        profs = profiles(tier)
        core = core_profiles(tier)
        npats = ['a', 'aa', 'ab', 'aab'] if quick else ['a', 'aa', 'ab', 'aab', 'aba']
        plan = [(0, OPS_FULL, profs, npats, ('filters',)),
                (1, OPS_FULL, profs, npats, ('filters', 'envs'))]
        if quick:
            plan += [(2, OPS_CORE, core, ['a', 'ab', 'aa'], ('filters',))]
        else:
            plan += [(2, OPS_FULL, profs, ['a', 'aa', 'ab'], ('filters',)),
                     (2, OPS_CORE, core, ['a', 'ab'], ('envs',)),
                     (3, OPS_CORE, core, ['a', 'ab'], ('filters',))]
        # every history over two action sets up to 4 interactions (A,A,B,A ...) for a sub-alphabet of action kinds
        pats = [''.join(t) for L in (2, 3, 4) for t in itertools.product('ab', repeat=L) if ''.join(t) not in npats]
        plan += [(1, OPS_FULL, [q for q in profs if q[0] in PATTERN_KINDS], pats, ('filters',))]
        if not quick: plan += [(2, OPS_CORE, [q for q in core if q[0] in PATTERN_KINDS], pats, ('filters',))]
        for length, ops, pr, nps, vias in plan:
            chs = list(chains(ops, length))
            for via in vias:
                if via == 'envs': chs = [c for c in chs if not any(op[0] == 'finalize' for op in c)]   # always appended on read
                for n in nps:
                    for (ak, rk, fk, lg) in pr:
                        for ch in chs:
                            yield {'a': ak, 'r': rk, 'f': fk, 'lg': lg, 'n': n, 'chain': ch, 'via': via}
        # IGL interactions made by the real Grounded filter, inspected (= history of 3*n feedback evaluations), then re-represented
        for n in HISTORIES[:2] if quick else HISTORIES:
            for ak in GROUNDED_KINDS:
                for rk in ('list', 'binary'):
                    for route in ('filters', 'envs'):
                        if route == 'envs' and n > 350: continue
                        for ch in chains(OPS_FULL, 1) if route == 'filters' else [[]] + [c for c in chains(OPS_FULL, 1) if c[0][0] != 'finalize']:
                            yield {'a': ak, 'r': rk, 'f': None, 'lg': None, 'n': n, 'chain': ch, 'via': 'grounded', 'route': route}
        # two environments with different data under ONE shortcut call (read in both orders) / one filter object on streams A, B, A
        one = [c for c in chains(OPS_FULL, 1)]
        two = [] if quick else [c for c in chains(OPS_CORE, 2)]
        for a1 in MULTI_KINDS:
            for a2 in MULTI_KINDS:
                if a1 == a2: continue
                small = max(N_NAMES.get(a1, 0), N_NAMES.get(a2, 0))       # every single environment still fits into the table
                extra = [[['dense', 'lookup', False, True, small]]] if small else []
                for via, chs, orders in (('envs2', [c for c in one + two if not any(op[0] == 'finalize' for op in c)] + extra, ([0, 1], [1, 0])),
                                         ('reuse', one, ([0, 1],))):
                    for order in orders:
                        for (rk, fk, lg) in MULTI_PROFILES:
                            for ch in chs:
                                yield {'a': a1, 'a2': a2, 'order': order, 'r': rk, 'f': fk, 'lg': lg, 'n': 'ab', 'chain': ch, 'via': via}

        # one stream whose action kind changes on the way: plain actions first and categorical ones later, and the reverse
        for a1, a2 in MIXED_PAIRS:
            for n1 in ('a', 'aa', 'ab'):
                for (rk, fk, lg) in MULTI_PROFILES:
                    if lg is not None: continue      # see ASSUMPTIONS: which fields get encoded is decided on the first interaction
                    for ch in one:
                        if ch[0][0] in ('batch', 'unbatch'): continue
                        yield {'a': a1, 'a2': a2, 'r': rk, 'f': fk, 'lg': lg, 'n': n1, 'n2': 'ab', 'chain': ch, 'via': 'mixed'}

    def run_case(self, case, acc):
        fails, info = evaluate(case)
        acc.outcome(info['sig'])
        acc.count('chains_of_length_%d' % len(case['chain']))
        if case['via'] == 'envs': acc.count('through_Environments_shortcuts')
        if case['via'] == 'envs2': acc.count('two_environments_under_one_shortcut_call')
        if case['via'] == 'reuse': acc.count('filter_object_reused_on_streams_A_B_A')
        if case['via'] == 'mixed': acc.count('streams_whose_action_kind_changes_on_the_way')
        if case['via'] == 'grounded': acc.count('grounded_histories_of_%d_interactions' % case['n'])
        elif len(pattern(case['n'])) >= 3: acc.count('histories_of_3_or_4_interactions')
        if info['hashcol']: acc.count('hash_collision_not_demanded')
        if info.get('rewritten'): acc.count('input_actions_rewritten_in_place')
        if fails: acc.count('failing_cases')
        if info['changed'] and not any(f[0] == 'chain' for f in fails): acc.mark_nontrivial()
        if fails:
            for key, detail, witness in diagnose(case, fails):
                acc.violation(key, detail, witness)


CHECK = C10()
