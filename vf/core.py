"""Common plumbing of every check: sharded exhaustive exploration, violation bookkeeping,
known-findings handling, replay artefacts and the evidence writer.

A property module defines a subclass of `Check` (see the docstring there).  `vf.run` drives it.

Exit codes: 0 held (possibly with KNOWN-FINDING lines), 1 unlisted violation(s), 2 harness error.
"""
import os, sys, json, time, hashlib, signal, traceback, tempfile, shutil, math, re
import multiprocessing as _mp

_FORK = _mp.get_context('fork')          # taken before any engine patches multiprocessing

VERIF = os.path.dirname(os.path.dirname(os.path.abspath(__file__)))
REPO = os.path.realpath(os.environ.get('COBA_REPO', '/repo'))
NPROC = int(os.environ.get('VERIF_NPROC', '16'))


class HarnessError(Exception):
    """The machinery itself is wrong / vacuous / nondeterministic (exit 2) - never a VIOLATION."""


class CaseTimeout(BaseException):
    """Raised inside a case when its wall budget is exhausted (BaseException: coba's `except Exception` must not swallow it)."""


# ------------------------------------------------------------------ json helpers

def jsonable(x, _d=0):
    """A JSON-able, deterministic rendering of arbitrary values (for witnesses / samples)."""
    if _d > 12: return repr(x)
    if x is None or isinstance(x, (bool, int, str)): return x
    if isinstance(x, float):
        if x != x: return 'nan'
        if x in (float('inf'), float('-inf')): return repr(x)
        return x
    if isinstance(x, (list, tuple)): return [jsonable(v, _d + 1) for v in x]
    if isinstance(x, (set, frozenset)): return sorted((jsonable(v, _d + 1) for v in x), key=repr)
    if isinstance(x, dict): return {str(k): jsonable(v, _d + 1) for k, v in x.items()}
    if isinstance(x, bytes): return {'__bytes__': x.decode('latin-1')}
    return re.sub(r' at 0x[0-9a-f]+', '', repr(x))


def case_hash(case) -> int:
    s = json.dumps(jsonable(case), sort_keys=True, separators=(',', ':'))
    return int.from_bytes(hashlib.blake2b(s.encode(), digest_size=8).digest(), 'big')


def slug(key: str) -> str:
    s = re.sub(r'[^A-Za-z0-9_.-]+', '_', key).strip('_')[:80]
    return f"{s}-{hashlib.blake2b(key.encode(), digest_size=4).hexdigest()}"


# ------------------------------------------------------------------ accumulator

def _flat(o):
    """Flatten an order key (nested tuples / ints) into a flat tuple of ints."""
    if isinstance(o, (list, tuple)):
        out = ()
        for x in o: out += _flat(x)
        return out
    return (int(o),)


class Acc:
    """Per-shard accumulator handed to `Check.run_case`."""

    def __init__(self, seed=0):
        self.seed = seed
        self.evaluations = 0          # cases / executions run
        self.nontrivial = set()       # 64-bit hashes of distinct non-trivial cases
        self.outcomes = set()         # distinct observed outcome signatures (short strings / hashes)
        self.states = 0
        self.transitions = 0
        self.traces = 0               # traces validated against the implementation
        self.counters = {}
        self.violations = {}          # key -> (order, what, witness)
        self.samples = []
        self.capped = []              # names of caps that were hit
        self.notes = {}               # key -> set of strings (merged by union), free-form per-case observations
        self._order = 0
        self._cur = None              # (index, case) of the case being run

    # -- called by property modules
    def violation(self, key, what, witness=None, order=None):
        """Report a violating case. `key` classifies the failure (component|mode|feature);
        the simplest witness per key is kept (smallest `order`, default: case index)."""
        if order is None:
            order = (self._cur[0] if self._cur else 0, self._order)
            self._order += 1
        if witness is None and self._cur is not None:
            witness = self._cur[1]
        order = _flat(order)
        old = self.violations.get(key)
        if old is None or order < old[0]:
            self.violations[key] = (order, what, jsonable(witness))

    def mark_nontrivial(self, case=None):
        if case is None: case = self._cur[1]
        self.nontrivial.add(case if isinstance(case, int) else case_hash(case))

    def outcome(self, sig):
        if not isinstance(sig, (str, int)):
            sig = case_hash(sig)
        self.outcomes.add(sig)

    def count(self, name, n=1):
        self.counters[name] = self.counters.get(name, 0) + n

    def sample(self, case, force=False):
        if force or len(self.samples) < 2 or (len(self.samples) < 4 and (case_hash(case) ^ self.seed) % 97 == 0):
            self.samples.append(jsonable(case))

    def note(self, key, values):
        self.notes.setdefault(key, set()).update(values)

    def cap(self, name):
        if name not in self.capped: self.capped.append(name)

    # -- merging
    def merge(self, o: 'Acc'):
        self.evaluations += o.evaluations
        self.nontrivial |= o.nontrivial
        self.outcomes |= o.outcomes
        self.states += o.states
        self.transitions += o.transitions
        self.traces += o.traces
        for k, v in o.counters.items(): self.counters[k] = self.counters.get(k, 0) + v
        for k, v in o.violations.items():
            if k not in self.violations or _flat(v[0]) < _flat(self.violations[k][0]): self.violations[k] = v
        self.samples += o.samples
        for c in o.capped: self.cap(c)
        for k, v in o.notes.items(): self.notes.setdefault(k, set()).update(v)


# ------------------------------------------------------------------ the check base class

class Check:
    """Base class of a property check.

    Required class attributes: ID, LEVEL (evidence level), RULE (how cases are enumerated and what makes
    one non-trivial), ASSUMPTIONS (list of str).
    Required methods:
      cases(tier)            -> iterator of JSON-able case descriptors, simplest first, finite.
      run_case(case, acc)    -> executes the REAL code for this case on fresh objects, compares with the
                                reference model, and reports through acc.violation / acc.mark_nontrivial /
                                acc.outcome / acc.count / acc.states / acc.transitions.
    Optional:
      setup(tier) / teardown()  once per worker process; replay(witness, acc) (default: run_case(witness));
      minimise(key, witness) -> smaller witness that still yields `key`;
      MIN_NONTRIVIAL = {'quick': n, 'thorough': m}  vacuity floor;  CASE_TIMEOUT seconds;
      post(acc, tier)        -> parent-side final checks over the merged accumulator (e.g. closure, conformance).
    """
    ID = None
    LEVEL = 'exploration'
    RULE = ''
    ASSUMPTIONS = []
    MIN_NONTRIVIAL = {'quick': 2, 'thorough': 2}
    CASE_TIMEOUT = 30
    TIMEOUT_IS_VIOLATION = False       # True where the property promises termination
    PARALLEL = True

    def setup(self, tier): pass
    def teardown(self): pass
    def cases(self, tier): raise NotImplementedError
    def run_case(self, case, acc): raise NotImplementedError
    def replay(self, witness, acc): return self.run_case(witness, acc)
    def minimise(self, key, witness): return witness
    def post(self, acc, tier): pass
    def timeout_key(self, case): return f'{self.ID}|non-termination|case exceeded {self.CASE_TIMEOUT}s'


def _alarm(signum, frame):
    raise CaseTimeout()


def run_one(check: Check, case, acc: Acc, index=0):
    """Run one case with a wall budget.  Exceptions escaping run_case are harness errors."""
    acc._cur = (index, case)
    acc._order = 0
    acc.evaluations += 1
    signal.signal(signal.SIGALRM, _alarm)
    signal.setitimer(signal.ITIMER_REAL, check.CASE_TIMEOUT)
    try:
        check.run_case(case, acc)
    except CaseTimeout:
        if check.TIMEOUT_IS_VIOLATION:
            acc.violation(check.timeout_key(case), f'no result within {check.CASE_TIMEOUT}s', case)
        else:
            raise HarnessError(f'case {index} exceeded {check.CASE_TIMEOUT}s: {json.dumps(jsonable(case))[:400]}')
    finally:
        signal.setitimer(signal.ITIMER_REAL, 0)
        acc._cur = None


def _shard_main(check: Check, tier, seed, shard, nshards, conn, deadline):
    acc = Acc(seed)
    err = None
    try:
        check.setup(tier)
        maxcases = int(os.environ.get('VERIF_MAXCASES', '0') or 0)     # debugging aid only: reported as a cap
        for i, case in enumerate(check.cases(tier)):
            if maxcases and i >= maxcases:
                acc.cap(f'VERIF_MAXCASES={maxcases}'); break
            if (i + seed) % nshards != shard: continue
            if deadline and time.time() > deadline:
                acc.cap(f'wall budget reached at case index {i}')
                break
            run_one(check, case, acc, i)
            if len(acc.samples) < 4: acc.sample(case)
        check.teardown()
    except BaseException as e:        # noqa
        err = ''.join(traceback.format_exception(type(e), e, e.__traceback__))[-6000:]
    try:
        conn.send((acc, err))
    finally:
        conn.close()


def explore(check: Check, tier: str, seed: int, budget_s=None) -> Acc:
    """Shard `check.cases(tier)` over NPROC fork workers and merge the accumulators."""
    nshards = NPROC if check.PARALLEL else 1
    deadline = time.time() + budget_s if budget_s else None
    total = Acc(seed)
    if nshards == 1:
        class _C:                      # in-process, same code path
            def send(self, x): self.x = x
            def close(self): pass
        c = _C(); _shard_main(check, tier, seed, 0, 1, c, deadline)
        acc, err = c.x
        if err: raise HarnessError('worker failed:\n' + err)
        total.merge(acc)
        return total
    procs = []
    for s in range(nshards):
        r, w = _FORK.Pipe(duplex=False)
        p = _FORK.Process(target=_shard_main, args=(check, tier, seed, s, nshards, w, deadline))
        p.start(); w.close(); procs.append((p, r))
    errs = []
    for p, r in procs:
        try:
            acc, err = r.recv()
        except EOFError:
            acc, err = None, f'worker {p.pid} died without reporting (exit code {p.exitcode})'
        p.join()
        if err: errs.append(err)
        if acc: total.merge(acc)
    if errs: raise HarnessError('worker failed:\n' + errs[0])
    return total


# ------------------------------------------------------------------ known findings

def load_known():
    p = os.environ.get('VERIF_KNOWN') or os.path.join(VERIF, 'known_findings.json')
    if not os.path.exists(p): return {'known': [], 'fixed': []}
    k = json.load(open(p))
    return {'known': k, 'fixed': []} if isinstance(k, list) else k      # a bare list of entries is accepted too


def tmpdir():
    d = tempfile.mkdtemp(prefix='vf-')
    import atexit; atexit.register(shutil.rmtree, d, True)
    return d
