"""SCHED engine - stateless model checking of real threads / simulated processes under a controlled scheduler.

`install()` must be called BEFORE coba is imported: it replaces `multiprocessing.get_context('spawn')` by a
simulated spawn context (Process, Queue, Event, Pipe, Lock, Semaphore, RawArray whose every visible operation is a
scheduling point) and patches `threading.Thread.start/join/is_alive` so that threads started by a scheduled task
become scheduled tasks themselves.  Real coba code then runs unmodified on top of it:

  * every task is a real OS thread that only runs while it holds the baton (one semaphore per task);
  * `Process.start()` pickles the process object and runs the unpickled copy as a new task with a new fake pid
    (own memory: what is not marshalled is not shared); queues/pipes carry pickles, one copy per hop;
  * process-global coba state (CobaContext.*, coba.random's module generator, UniqueKey.N) is swapped at every
    context switch between tasks of different pids; a child starts from fresh-interpreter values;
  * blocking operations are "disabled until predicate": no enabled task + unfinished main task = deadlock;
    exceeding the point budget = livelock / non-termination.

Exploration (`explore`): depth-first over choice sequences with a bound on *deviations* from the default policy
(default = keep running the current task while it is enabled, else the first enabled task in policy order).  Every
non-default choice - a preemption or a non-default pick after a block - costs one deviation; all schedules with
<= bound deviations are executed (exhaustive within the bound, no sampling, no partial-order pruning), under each
of the given default policies.  Executions are deterministic: a prefix that cannot be replayed is a hard error.
"""
import sys, threading, pickle, queue as _queue, collections, itertools, time as _time
import multiprocessing as _mp

_orig_get_context = _mp.get_context
_orig_start = threading.Thread.start
_orig_join = threading.Thread.join
_orig_is_alive = threading.Thread.is_alive

CUR = None                 # the Scheduler of the execution in progress (one per worker process at a time)
_installed = False


class Abort(BaseException):
    """Raised inside leftover tasks to unwind them when an execution is over."""


class SchedError(Exception):
    """Harness-level failure (nondeterministic replay, foreign blocking, leaked thread)."""


class Task:
    __slots__ = ('id', 'pid', 'name', 'thread', 'sem', 'pending', 'pred', 'finished', 'error', 'steps', 'started', 'user_daemon')

    def __init__(self, id, pid, name):
        self.id, self.pid, self.name = id, pid, name
        self.thread = None
        self.sem = threading.Semaphore(0)
        self.pending = ('begin', id)
        self.pred = None
        self.finished = False
        self.error = None
        self.steps = 0
        self.started = False
        self.user_daemon = True

    def enabled(self):
        if self.finished: return False
        p = self.pred
        return True if p is None else bool(p())


# ---------------------------------------------------------------- per-pid process globals

class PidGlobals:
    """Registry of process-global state that must not be shared between fake processes."""
    _MISSING = object()

    def __init__(self):
        self.slots = []          # (getter, setter, fresh_factory)

    def add_attr(self, owner, name, fresh):
        M = self._MISSING
        def get(): return owner.__dict__.get(name, M)
        def put(v):
            if v is M:
                if name in owner.__dict__: type.__delattr__(owner, name) if isinstance(owner, type) else delattr(owner, name)
            else:
                type.__setattr__(owner, name, v) if isinstance(owner, type) else setattr(owner, name, v)
        self.slots.append((get, put, fresh))

    def snapshot(self): return [g() for g, _, _ in self.slots]
    def install(self, vals):
        for (_, p, _), v in zip(self.slots, vals): p(v)
    def fresh(self): return [f() for _, _, f in self.slots]


PIDGLOBALS = PidGlobals()


# ---------------------------------------------------------------- the scheduler

class Point:
    __slots__ = ('n', 'labels')
    def __init__(self, n, labels): self.n, self.labels = n, labels


class Execution:
    def __init__(self):
        self.choices = []        # choice index at every point with >= 2 enabled tasks
        self.points = []         # Point per such decision
        self.steps = 0           # baton hand-overs (transitions)
        self.deadlock = False
        self.livelock = False
        self.result = None       # ('ok', value) | ('exc', exception) of the main body
        self.leftover = 0        # tasks still blocked when the main body had finished and nothing was enabled
        self.leftover_nondaemon = 0      # ... of which the program created as NON-daemon (they keep the interpreter from exiting)
        self.task_errors = []    # uncaught exceptions in non-main tasks
        self.log = []            # harness events recorded through record()
        self.npids = 1
        self.max_enabled = 0


class Scheduler:
    def __init__(self, policy='low', max_points=4000, trace_labels=False):
        self.tasks = []
        self.by_thread = {}
        self.back = threading.Semaphore(0)
        self.aborting = False
        self.registry = {}
        self._next_reg = itertools.count()
        self._next_pid = itertools.count(1)
        self.current = None
        self.cur_pid = 0
        self.pid_state = {}
        self.policy = policy
        self.max_points = max_points
        self.ex = Execution()
        self.trace_labels = trace_labels
        self.epoch = 0           # incremented at every baton hand-over (used by sleep-as-wait predicates)

    def new_task(self, pid, name, target):
        t = Task(len(self.tasks), pid, name)
        self.tasks.append(t)
        th = threading.Thread(target=self._task_main, args=(t, target), daemon=True, name=f'vf-task-{t.id}-{name}')
        t.thread = th
        return t

    def adopt_thread(self, thread, pid, name):
        """A threading.Thread started by a scheduled task becomes a task (its run() is wrapped)."""
        t = Task(len(self.tasks), pid, name)
        self.tasks.append(t)
        t.thread = thread
        orig_run = thread.run
        def run():
            self._task_main(t, orig_run)
        thread.run = run
        thread._vf_task = t
        return t

    def _task_main(self, t, target):
        self.by_thread[threading.get_ident()] = t
        t.sem.acquire()
        try:
            if self.aborting: raise Abort()
            t.pending = None; t.pred = None
            target()
        except Abort:
            pass
        except BaseException as e:       # noqa - uncaught exception in a thread / process body
            t.error = e
        finally:
            t.finished = True
            self.back.release()

    def new_pid(self): return next(self._next_pid)

    def register(self, obj):
        i = next(self._next_reg)
        self.registry[i] = obj
        return i

    # -- the loop, run by the thread that called execute()
    def order(self, enabled):
        cur = self.current
        rest = [t for t in enabled if t is not cur]
        if self.policy == 'high': rest.sort(key=lambda t: -t.id)
        elif self.policy == 'rr' and cur is not None:
            rest.sort(key=lambda t: (t.id <= cur.id, t.id))
        else: rest.sort(key=lambda t: t.id)
        return ([cur] if cur in enabled else []) + rest

    def switch_pid(self, pid):
        if pid == self.cur_pid: return
        self.pid_state[self.cur_pid] = PIDGLOBALS.snapshot()
        st = self.pid_state.get(pid)
        if st is None: st = PIDGLOBALS.fresh()
        PIDGLOBALS.install(st)
        self.cur_pid = pid

    def loop(self, prefix):
        ex = self.ex
        main = self.tasks[0]
        npts = 0
        while True:
            enabled = [t for t in self.tasks if t.started and t.enabled()]
            if not enabled:
                if not main.finished: ex.deadlock = True
                else:
                    ex.leftover = sum(1 for t in self.tasks if not t.finished)
                    ex.leftover_nondaemon = sum(1 for t in self.tasks if not t.finished and getattr(t, 'user_daemon', True) is False)
                break
            order = self.order(enabled)
            if len(order) > 1:
                i = len(ex.choices)
                if i < len(prefix):
                    c = prefix[i]
                    if c >= len(order):
                        raise SchedError(f'replay diverged at point {i}: choice {c} but only {len(order)} enabled')
                else:
                    c = 0
                ex.choices.append(c)
                ex.points.append(Point(len(order), [(t.id, t.pid, _label(t.pending)) for t in order] if self.trace_labels else None))
                ex.max_enabled = max(ex.max_enabled, len(order))
                npts += 1
                if npts > self.max_points:
                    ex.livelock = True
                    break
                t = order[c]
            else:
                t = order[0]
                npts_single = ex.steps
                if npts_single > 20 * self.max_points:
                    ex.livelock = True
                    break
            self.switch_pid(t.pid)
            self.current = t
            t.steps += 1
            ex.steps += 1
            self.epoch += 1
            t.sem.release()
            self.back.acquire()
        if len(ex.choices) < len(prefix) and not (ex.deadlock or ex.livelock):
            raise SchedError(f'replay diverged: execution ended after {len(ex.choices)} points, prefix has {len(prefix)}')

    def abort_all(self):
        self.aborting = True
        for t in self.tasks:
            if t.started and not t.finished: t.sem.release()
        for t in self.tasks:
            if t.started and t.thread is not threading.current_thread():
                _orig_join(t.thread, 5)
                if _orig_is_alive(t.thread):
                    raise SchedError(f'task {t.id} ({t.name}) could not be unwound')


def _label(p):
    if p is None: return '?'
    return ':'.join(str(x) for x in p)


def current_task():
    s = CUR
    if s is None: return None
    return s.by_thread.get(threading.get_ident())


def current_pid():
    t = current_task()
    return t.pid if t else 0


def record(ev):
    """Harness instrumentation: append an event to the current execution's log (shared harness memory)."""
    s = CUR
    if s is not None: s.ex.log.append(ev)


def yield_point(obj, kind, pred=None):
    """Called by a task BEFORE a visible operation.  Returns when the scheduler grants the step
    (and `pred`, if given, holds)."""
    s = CUR
    t = s.by_thread.get(threading.get_ident()) if s is not None else None
    if t is None:
        if pred is not None and not pred():
            raise SchedError(f'blocking operation {kind} on {obj} outside the scheduler would block forever')
        return
    if s.aborting: raise Abort()
    t.pending = (kind, obj)
    t.pred = pred
    s.back.release()
    t.sem.acquire()
    if s.aborting: raise Abort()
    t.pending = None
    t.pred = None


# ---------------------------------------------------------------- patched threading.Thread

def _start(self):
    s = CUR
    creator = s.by_thread.get(threading.get_ident()) if s is not None else None
    if creator is None or getattr(self, '_vf_task', None) is not None:
        return _orig_start(self)
    t = s.adopt_thread(self, creator.pid, type(self).__name__ + ':' + getattr(getattr(self, '_target', None), '__name__', 'run'))
    t.user_daemon = bool(self.daemon)
    _orig_start(self)          # returns once the thread has bootstrapped; it then waits for the baton
    t.started = True


def _join(self, timeout=None):
    t = getattr(self, '_vf_task', None)
    if t is None or CUR is None or current_task() is None:
        return _orig_join(self, timeout)
    yield_point(t.id, 'join', lambda: t.finished)


def _is_alive(self):
    t = getattr(self, '_vf_task', None)
    if t is None: return _orig_is_alive(self)
    return not t.finished


# ---------------------------------------------------------------- simulated spawn context

def _lookup(i):
    return CUR.registry[i]


class _Shared:
    def _reg(self):
        s = CUR
        self._id = s.register(self) if s is not None else None
        self._key = f'{type(self).__name__[4:].lower()}{self._id}'

    def __reduce__(self):
        if self._id is None: raise pickle.PicklingError('shared primitive created outside an execution')
        return (_lookup, (self._id,))


class FakeQueue(_Shared):
    def __init__(self, maxsize=0):
        self._reg()
        self._items = collections.deque()
        self._maxsize = maxsize
        self._closed = False

    def put(self, obj, block=True, timeout=None):
        data = pickle.dumps(obj)
        if self._maxsize > 0:
            yield_point(self._key, 'put', lambda: len(self._items) < self._maxsize)
        else:
            yield_point(self._key, 'put')
        self._items.append(data)

    def put_nowait(self, obj):
        data = pickle.dumps(obj)
        yield_point(self._key, 'put_nowait')
        if self._maxsize > 0 and len(self._items) >= self._maxsize: raise _queue.Full
        self._items.append(data)

    def get(self, block=True, timeout=None):
        if not block: return self.get_nowait()
        yield_point(self._key, 'get', lambda: len(self._items) > 0)
        return pickle.loads(self._items.popleft())

    def get_nowait(self):
        yield_point(self._key, 'get_nowait')
        if not self._items: raise _queue.Empty
        return pickle.loads(self._items.popleft())

    def qsize(self): return len(self._items)
    def empty(self): return not self._items
    def full(self): return self._maxsize > 0 and len(self._items) >= self._maxsize
    def close(self): self._closed = True
    def join_thread(self): pass
    def cancel_join_thread(self): pass


class FakeEvent(_Shared):
    def __init__(self):
        self._reg(); self._flag = False

    def set(self):
        yield_point(self._key, 'set'); self._flag = True

    def clear(self):
        yield_point(self._key, 'clear'); self._flag = False

    def is_set(self): return self._flag

    def wait(self, timeout=None):
        yield_point(self._key, 'wait', lambda: self._flag)
        return True


_RECV_WAITING = {}


class FakeConn(_Shared):
    def __init__(self, buf, readable, writable):
        self._reg(); self._buf = buf; self.readable = readable; self.writable = writable; self.closed = False

    PIPE_CAPACITY = 65536       # an OS pipe holds about 64 KiB: a larger message blocks the sender until a reader is receiving

    def send(self, obj):
        data = pickle.dumps(obj)
        if len(data) > self.PIPE_CAPACITY:
            yield_point(self._key, 'send-large', lambda: _RECV_WAITING.get(id(self._buf), 0) > 0)
        else:
            yield_point(self._key, 'send')
        if self.closed: raise OSError('handle is closed')
        self._buf.append(data)

    def recv(self):
        k = id(self._buf)
        _RECV_WAITING[k] = _RECV_WAITING.get(k, 0) + 1
        try:
            yield_point(self._key, 'recv', lambda: len(self._buf) > 0)
        finally:
            _RECV_WAITING[k] -= 1
        return pickle.loads(self._buf.popleft())

    def poll(self, timeout=0.0):
        return len(self._buf) > 0

    def close(self): self.closed = True


class FakeLock(_Shared):
    def __init__(self):
        self._reg(); self._owner = None

    def acquire(self, block=True, timeout=None):
        if not block:
            yield_point(self._key, 'try_acquire')
            if self._owner is not None: return False
        else:
            yield_point(self._key, 'acquire', lambda: self._owner is None)
        t = current_task()
        self._owner = t.id if t is not None else -1
        return True

    def release(self):
        yield_point(self._key, 'release')
        if self._owner is None: raise RuntimeError('release unlocked lock')
        self._owner = None

    def locked(self): return self._owner is not None
    def __enter__(self): self.acquire(); return self
    def __exit__(self, *a): self.release()


class FakeSemaphore(_Shared):
    def __init__(self, value=1):
        self._reg(); self._value = value

    def acquire(self, block=True, timeout=None):
        yield_point(self._key, 'acquire', lambda: self._value > 0)
        self._value -= 1
        return True

    def release(self):
        yield_point(self._key, 'release'); self._value += 1

    def __enter__(self): self.acquire(); return self
    def __exit__(self, *a): self.release()


class FakeArray(_Shared):
    """RawArray: every cell read / write is a scheduling point (object = the cell)."""
    def __init__(self, ctype, init):
        self._reg()
        self._cells = list(init) if not isinstance(init, int) else [0] * init

    def __len__(self): return len(self._cells)

    def __getitem__(self, i):
        yield_point(f'{self._key}[{i}]', 'read')
        return self._cells[i]

    def __setitem__(self, i, v):
        yield_point(f'{self._key}[{i}]', 'write')
        self._cells[i] = v


class FakeProcess:
    """multiprocessing.Process of the simulated spawn context."""
    def __init__(self, group=None, target=None, name=None, args=(), kwargs=None, *, daemon=None):
        self._target, self._args, self._kwargs = target, tuple(args), dict(kwargs or {})
        self.daemon = daemon
        self.name = name or 'FakeProcess'
        self._vf = None

    def run(self):
        if self._target: self._target(*self._args, **self._kwargs)

    def start(self):
        s = CUR
        creator = current_task()
        if s is None or creator is None: raise SchedError('FakeProcess.start outside a scheduled execution')
        state = pickle.dumps(self)              # what spawn does: the child gets a pickled copy
        yield_point('proc', 'spawn')
        pid = s.new_pid()
        s.ex.npids += 1
        def body():
            child = pickle.loads(state)         # unpickled inside the child (child's globals are installed)
            child.run()
        t = s.new_task(pid, f'proc{pid}', body)
        t.user_daemon = bool(self.daemon)
        self._vf = t
        _orig_start(t.thread)
        t.started = True

    def join(self, timeout=None):
        t = self._vf
        if t is None: raise AssertionError('can only join a started process')
        yield_point(t.id, 'join', lambda: t.finished)

    def is_alive(self):
        return self._vf is not None and not self._vf.finished

    @property
    def exitcode(self):
        t = self._vf
        if t is None or not t.finished: return None
        return 0 if t.error is None else 1

    @property
    def pid(self):
        return self._vf.pid if self._vf is not None else None

    def terminate(self): pass
    def kill(self): pass
    def close(self): pass

    def __getstate__(self):
        d = dict(self.__dict__); d['_vf'] = None
        return d


class FakeContext:
    Process = FakeProcess
    _name = 'spawn'

    def Queue(self, maxsize=0): return FakeQueue(maxsize)
    def SimpleQueue(self): return FakeQueue(0)
    def Event(self): return FakeEvent()
    def Lock(self): return FakeLock()
    def RLock(self): return FakeLock()
    def Semaphore(self, value=1): return FakeSemaphore(value)
    def BoundedSemaphore(self, value=1): return FakeSemaphore(value)
    ARRAY_CLS = None      # a check may plant a monitored subclass of FakeArray here
    def RawArray(self, ctype, init): return (self.ARRAY_CLS or FakeArray)(ctype, init)
    def Array(self, ctype, init, lock=True): return (self.ARRAY_CLS or FakeArray)(ctype, init)

    def Pipe(self, duplex=True):
        if duplex: raise SchedError('duplex pipes are not modelled')
        buf = collections.deque()
        return FakeConn(buf, True, False), FakeConn(buf, False, True)

    def get_context(self, method=None): return self
    def get_start_method(self, allow_none=False): return 'spawn'


FAKE = FakeContext()


def _get_context(method=None):
    if method == 'spawn': return FAKE
    return _orig_get_context(method)


def install():
    """Patch multiprocessing / threading.  Call before importing coba."""
    global _installed
    if _installed: return
    if any(m == 'coba' or m.startswith('coba.') for m in sys.modules):
        raise SchedError('sched.install() must run before coba is imported')
    _mp.get_context = _get_context
    threading.Thread.start = _start
    threading.Thread.join = _join
    threading.Thread.is_alive = _is_alive
    _installed = True


# ---------------------------------------------------------------- line-level scheduling points (shared memory of one process)

_TRACED = {}


def trace_lines(codes, label='mem'):
    """Make every source line of the given code objects a scheduling point (python 3.12 sys.monitoring, local LINE
    events): used where threads of ONE process race on ordinary attributes (counters updated from callback threads)."""
    mon = sys.monitoring
    tool = mon.DEBUGGER_ID
    if not _TRACED:
        if mon.get_tool(tool) is None: mon.use_tool_id(tool, 'vf-sched')
        mon.register_callback(tool, mon.events.LINE, _on_line)
    for c in codes:
        if c in _TRACED: continue
        _TRACED[c] = label
        mon.set_local_events(tool, c, mon.events.LINE)


def _on_line(code, line):
    s = CUR
    if s is None or s.aborting: return
    t = s.by_thread.get(threading.get_ident())
    if t is None: return
    yield_point(f'{_TRACED.get(code, "mem")}@pid{t.pid}', f'line:{code.co_name}:{line}')


def nested_code(func, *names):
    """Code objects of closures defined inside `func` (by name)."""
    out = []
    def walk(code):
        for c in code.co_consts:
            if hasattr(c, 'co_name'):
                if c.co_name in names: out.append(c)
                walk(c)
    walk(func.__code__)
    missing = set(names) - {c.co_name for c in out}
    if missing: raise SchedError(f'closures {sorted(missing)} not found in {func.__qualname__}')
    return out


# ---------------------------------------------------------------- one execution, and the explorer

def execute(body, prefix=(), policy='low', max_points=4000, trace_labels=False, before=None):
    """Run `body()` as task 0 under the scheduler, replaying `prefix` then taking default choices."""
    global CUR
    if not _installed: raise SchedError('sched.install() was not called')
    s = Scheduler(policy, max_points, trace_labels)
    CUR = s
    saved = PIDGLOBALS.snapshot()
    try:
        PIDGLOBALS.install(PIDGLOBALS.fresh())
        if before: before()           # set pid-0 globals (e.g. CobaContext.logger) for this execution
        def main():
            try:
                s.ex.result = ('ok', body())
            except Abort:
                raise
            except BaseException as e:   # noqa
                s.ex.result = ('exc', e)
        t0 = s.new_task(0, 'main', main)
        _orig_start(t0.thread)
        t0.started = True
        try:
            s.loop(list(prefix))
        finally:
            s.switch_pid(0)
            s.abort_all()
        s.ex.task_errors = [(t.id, t.name, t.error) for t in s.tasks[1:] if t.error is not None]
        return s.ex
    finally:
        PIDGLOBALS.install(saved)
        CUR = None


def explore(body_factory, bound, policies=('low',), cap=None, on_exec=None, max_points=4000, before=None, part=None):
    """All schedules with <= `bound` deviations from each default policy.
    `body_factory()` must return a fresh body (fresh objects) for every execution.
    `part=(k, n)` explores only every n-th first-level deviation (k-th residue) plus the root execution, so that one
    configuration's schedule tree can be spread over n workers; the union over k is the whole tree.
    Returns dict(executions, points, transitions, max_depth, capped, completed_bound)."""
    stats = dict(executions=0, points=0, transitions=0, max_depth=0, capped=False, max_enabled=0)
    for policy in policies:
        stack = [()]
        while stack:
            prefix = stack.pop()
            ex = execute(body_factory(), prefix, policy, max_points, before=before)
            stats['executions'] += 1
            stats['points'] += len(ex.points)
            stats['transitions'] += ex.steps
            stats['max_depth'] = max(stats['max_depth'], len(ex.points))
            stats['max_enabled'] = max(stats['max_enabled'], ex.max_enabled)
            if on_exec: on_exec(ex, prefix, policy)
            if cap and stats['executions'] >= cap:
                stats['capped'] = True
                return stats
            used = sum(1 for c in prefix if c)
            if used >= bound: continue
            # children: one more deviation at any later point (choices after the prefix are all defaults)
            nth = 0
            for i in range(len(ex.points) - 1, len(prefix) - 1, -1):
                base = tuple(ex.choices[:i])
                for alt in range(ex.points[i].n - 1, 0, -1):
                    nth += 1
                    if part is not None and not prefix and nth % part[1] != part[0]: continue
                    stack.append(base + (alt,))
    return stats
