"""ORBIT engine - traversal of the complete state space of a full-period linear congruential generator.

The generator under test advances a hidden state by  s' = (A*s + C) mod M  and emits s'/M.  With M a power of two,
C odd and A = 1 (mod 4) the map is a single cycle through all M states (Hull-Dobell), so "every reachable state" is
"every residue mod M" and the whole space can be walked by following the REAL generator object around the cycle.

The walk is cut into `nseg` segments.  The harness only computes where a segment has to *start* (LCG jump-ahead,
s_k = A_k*s_0 + C_k mod M by repeated squaring of the affine map); everything in between is consumed from the real
object's stream.  Segment i must *end* in the state segment i+1 starts from, and the last segment in the state the
first one started from (closure): together with the length bookkeeping this shows that every state was visited
exactly once.  Two independent cross-checks are kept: the exact integer sum of all visited states must be
M*(M-1)/2 and exactly one visited state is 0.

Nothing here imports coba: the property module supplies the real object and the constants it is documented to use.
"""
import math


class LCG:
    """Arithmetic of the affine map x -> a*x + c (mod m), m a power of two."""

    def __init__(self, a, c, m):
        assert m & (m - 1) == 0, 'modulus must be a power of two'
        self.a, self.c, self.m = a, c, m
        self.mask = m - 1
        self.full_period = (c % 2 == 1) and (a % 4 == 1)        # Hull-Dobell for m = 2^k, k >= 2
        self.a_inv = pow(a, -1, m) if a % 2 else None

    def step(self, s):
        return (self.a * s + self.c) & self.mask

    def jump(self, k):
        """(A_k, C_k) with  step^k(s) = A_k*s + C_k (mod m).  Negative k walks backwards (needs the full period)."""
        if k < 0:
            assert self.full_period
            k %= self.m
        A, C = 1, 0                       # identity
        a, c = self.a, self.c             # map^(2^j)
        mask = self.mask
        while k:
            if k & 1:
                A, C = (a * A) & mask, (a * C + c) & mask
            a, c = (a * a) & mask, (a * c + c) & mask
            k >>= 1
        return A, C

    def advance(self, s, k):
        A, C = self.jump(k)
        return (A * s + C) & self.mask

    def seed_for(self, state, pos=0):
        """The pre-state (= integer seed) from which the (pos+1)-th emitted state is `state`."""
        return self.advance(state, -(pos + 1))

    def segments(self, nseg, offset=0, origin=0):
        """[(index, start pre-state, length)] - nseg equal pieces of the cycle that begins `offset` steps after `origin`."""
        assert self.m % nseg == 0
        L = self.m // nseg
        return [(i, self.advance(origin, offset + i * L), L) for i in range(nseg)]


def self_test(lcg):
    """Jump-ahead agrees with single stepping, backwards jumps invert forward jumps."""
    s = 12345 & lcg.mask
    t = s
    for _ in range(1000): t = lcg.step(t)
    assert lcg.advance(s, 1000) == t
    assert lcg.advance(t, -1000) == s
    assert lcg.step(lcg.seed_for(t)) == t
    assert lcg.advance(lcg.seed_for(t, 3), 4) == t
    if lcg.full_period:
        assert lcg.advance(s, lcg.m) == s and lcg.advance(s, lcg.m // 2) != s


def chain_closed(lcg, ends, nseg, offset=0, origin=0):
    """`ends`: {segment index: (start pre-state given to the real object, state the real object ended in)}.
    -> (ok, first problem).  ok means: all nseg segments present, each starts where the harness said, each ends where
    the next one starts, and the last one ends where the first one started."""
    segs = lcg.segments(nseg, offset, origin)
    for i, start, _L in segs:
        if i not in ends: return False, f'segment {i} missing'
        s, e = ends[i]
        if s != start: return False, f'segment {i} started from {s}, expected {start}'
        nxt = segs[(i + 1) % nseg][1]
        if e != nxt: return False, f'segment {i} ended in state {e}, segment {(i + 1) % nseg} starts from {nxt}'
    return True, None


def exact_state_sum(block, m):
    """Exact integer sum of the states behind a block of uniforms s/m (m a power of two, len(block)*m < 2^53)."""
    s = math.fsum(block) if len(block) * m >= 2 ** 53 else sum(block)
    return int(s * m)
