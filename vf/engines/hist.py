"""HIST engine - explicit-state search over operation histories of one real object.

A *state is the history reaching it* (live iterators / generators cannot be copied): the property module's
`build(descriptor)` constructs fresh real objects and `apply(obj, op)` performs one operation; the explorer
enumerates every operation sequence up to the depth bound (breadth first = simplest first), replays each from
scratch on fresh objects and evaluates the oracle after every step.

Two flavours:
  * `histories(alphabet, depth)`: plain enumeration of all sequences (no merging) - for objects with hidden
    iterator state (C04, C13).
  * `bfs(...)`: breadth-first search with state merging through a *complete* canonical form supplied by the
    property module (only sound when `canon` captures everything future behaviour depends on - C16, C17).
"""
import itertools
from collections import deque


def histories(alphabet, depth, min_len=1):
    """All sequences over `alphabet` of length min_len..depth, shortest first, lexicographic in alphabet order."""
    alphabet = list(alphabet)
    for n in range(min_len, depth + 1):
        for h in itertools.product(alphabet, repeat=n):
            yield h


def count_histories(k, depth, min_len=1):
    return sum(k ** n for n in range(min_len, depth + 1))


def bfs(build, enabled, step, canon, depth, on_state=None, max_states=None):
    """Breadth-first explicit-state search with replay-from-scratch.

    build()                -> fresh real object in the initial state
    enabled(obj, history)  -> iterable of operations enabled in that state
    step(obj, op)          -> applies op to the real object (may raise: the caller's oracle decides)
    canon(obj)             -> hashable canonical form of the state (MUST be complete)
    on_state(obj, history) -> oracle evaluated once per distinct state (after the step that reached it)
    Returns (states, transitions, capped).
    """
    def reach(hist):
        o = build()
        for op in hist: step(o, op)
        return o

    o0 = build()
    seen = {canon(o0)}
    if on_state: on_state(o0, ())
    frontier = deque([()])
    states, transitions, capped = 1, 0, False
    while frontier:
        hist = frontier.popleft()
        if len(hist) >= depth: continue
        base = reach(hist)
        for op in list(enabled(base, hist)):
            o = reach(hist)
            step(o, op)
            transitions += 1
            k = canon(o)
            if k in seen: continue
            seen.add(k); states += 1
            if on_state: on_state(o, hist + (op,))
            if max_states and states >= max_states:
                capped = True; return states, transitions, capped
            frontier.append(hist + (op,))
    return states, transitions, capped
