"""CLI:  python -m vf.run <ID> [--tier quick|thorough] [--replay FILE] [--list-cases N]"""
import os, sys, json, time, argparse, importlib, traceback

from vf import core
from vf.core import Acc, HarnessError, jsonable, slug, VERIF, REPO

OUT = os.environ.get('VERIF_OUT') or VERIF      # where evidence/ and replays/ are written (mutation runs redirect it)


def load_check(pid):
    mod = importlib.import_module(f'vf.props.{pid.lower()}')
    import coba
    here = os.path.realpath(os.path.dirname(os.path.dirname(coba.__file__)))
    if here != REPO:
        raise HarnessError(f'coba imported from {here}, expected {REPO}')
    chk = mod.CHECK
    assert chk.ID == pid
    return chk


def write_replay(pid, key, what, witness, tier):
    d = os.path.join(OUT, 'replays', pid)
    os.makedirs(d, exist_ok=True)
    p = os.path.join(d, slug(key) + '.json')
    with open(p, 'w') as f:
        json.dump({'property': pid, 'key': key, 'what': what, 'witness': witness}, f, indent=1, sort_keys=True)
        f.write('\n')
    return p


def write_evidence(chk, tier, seed, acc: Acc, wall, nviol, extra=None):
    # a case may enumerate many executions internally (histories, prefixes, schedules): report executions of the real code
    evaluations = max([acc.evaluations, len(acc.nontrivial), acc.traces] + [v for k, v in acc.counters.items() if k in ('executions', 'histories', 'operations', 'prefixes')])
    cov = {
        'evaluations': evaluations,
        'cases': acc.evaluations,
        'distinct_nontrivial': len(acc.nontrivial),
        'rule': chk.RULE,
        'samples': acc.samples[:6] or ['<none>'],
        'distinct_outcomes': len(acc.outcomes),
        'exhaustive': not acc.capped,
        'caps_hit': acc.capped,
        'counters': dict(sorted(acc.counters.items())),
    }
    if chk.LEVEL == 'model_checking':
        cov['states'] = acc.states
        cov['transitions'] = acc.transitions
        cov['traces_validated_against_impl'] = acc.traces
    if extra: cov.update(extra)
    ev = {'property_id': chk.ID, 'tier': tier, 'seed': seed, 'level': chk.LEVEL, 'coverage': cov,
          'assumptions': list(chk.ASSUMPTIONS), 'wall_s': round(wall, 2), 'violations': nviol}
    os.makedirs(os.path.join(OUT, 'evidence'), exist_ok=True)
    with open(os.path.join(OUT, 'evidence', f'{chk.ID}.json'), 'w') as f:
        json.dump(ev, f, indent=1)
        f.write('\n')
    return ev


def main(argv=None):
    ap = argparse.ArgumentParser()
    ap.add_argument('pid')
    ap.add_argument('--tier', default=os.environ.get('VERIF_TIER') or 'quick', choices=['quick', 'thorough'])
    ap.add_argument('--replay')
    ap.add_argument('--list-cases', type=int, default=0)
    a = ap.parse_args(argv)
    seed = int(os.environ.get('VERIF_SEED', '0') or 0)
    pid = a.pid.upper()
    try:
        chk = load_check(pid)
        if a.list_cases:
            for i, c in enumerate(chk.cases(a.tier)):
                if i >= a.list_cases: break
                print(json.dumps(jsonable(c)))
            return 0
        if a.replay:
            return replay(chk, a.replay)
        return run(chk, a.tier, seed)
    except HarnessError as e:
        print(f'HARNESS-ERROR property={pid}: {e}', file=sys.stderr)
        return 2
    except Exception:
        traceback.print_exc()
        print(f'HARNESS-ERROR property={pid}: unexpected exception in the machinery', file=sys.stderr)
        return 2


def replay(chk, path):
    doc = json.load(open(path))
    acc = Acc(0)
    chk.setup('quick')
    acc._cur = (0, doc['witness'])
    chk.replay(doc['witness'], acc)
    chk.teardown()
    if acc.violations:
        for k, (_, what, _w) in sorted(acc.violations.items()):
            print(f'  reproduced: {k}: {what}')
        print(f'VIOLATION property={chk.ID} replay={path}')
        return 1
    print(f'replay of {path}: no violation')
    return 0


def run(chk, tier, seed):
    t0 = time.time()
    budget = float(os.environ.get('VERIF_BUDGET', '0') or 0) or None
    acc = core.explore(chk, tier, seed, budget)
    extra = chk.post(acc, tier) or {}

    known = [k for k in core.load_known().get('known', []) if k['property'] == chk.ID]
    known_keys = {k['key'] for k in known}
    rdir = os.path.join(OUT, 'replays', chk.ID)      # stale artefacts of earlier runs (listed findings stay)
    if os.path.isdir(rdir):
        keep = {slug(k) + '.json' for k in known_keys}
        for f in os.listdir(rdir):
            if f.endswith('.json') and f not in keep: os.unlink(os.path.join(rdir, f))
    # every listed finding is replayed from its committed witness, so it is reported (or seen to be gone)
    # independently of the tier's bound
    still = set()
    for k in known:
        a2 = Acc(seed)
        try:
            chk.setup(tier)
            a2._cur = (0, k['witness'])
            chk.replay(k['witness'], a2)
            chk.teardown()
        except Exception as e:       # noqa
            raise HarnessError(f"replay of known finding {k['key']} crashed: {e!r}")
        if k['key'] in a2.violations or k['key'] in acc.violations:
            still.add(k['key'])
            write_replay(chk.ID, k['key'], k['what'], k['witness'], tier)      # replayable artefact of the listed finding
            print(f"KNOWN-FINDING: property={chk.ID} {k['key']}: {k['what']}")
        else:
            print(f"note: listed finding no longer reproduces: {k['key']}", file=sys.stderr)
        for kk, v in a2.violations.items():     # a replay may also expose an unlisted failure
            if kk not in acc.violations: acc.violations[kk] = v

    new = {k: v for k, v in acc.violations.items() if k not in known_keys}
    paths = []
    for key, (_, what, witness) in sorted(new.items(), key=lambda kv: (core._flat(kv[1][0]), kv[0])):
        try:
            witness = chk.minimise(key, witness)
        except Exception:
            pass
        p = write_replay(chk.ID, key, what, witness, tier)
        paths.append(p)
        print(f'  violation {key}: {what}')
        print(f'VIOLATION property={chk.ID} replay={p}')

    wall = time.time() - t0
    ev = write_evidence(chk, tier, seed, acc, wall, len(new), extra)
    c = ev['coverage']
    print(f"{chk.ID} {tier}: evaluations={c['evaluations']} distinct_nontrivial={c['distinct_nontrivial']} "
          f"outcomes={c['distinct_outcomes']} states={acc.states} transitions={acc.transitions} "
          f"exhaustive={c['exhaustive']} known={len(still)} violations={len(new)} wall={wall:.1f}s")
    floor = chk.MIN_NONTRIVIAL.get(tier, 2)
    if len(acc.nontrivial) < floor:
        raise HarnessError(f'vacuous: only {len(acc.nontrivial)} non-trivial cases (floor {floor})')
    return 1 if new else 0


if __name__ == '__main__':
    sys.exit(main())
